#!/venv/bin/python
"""Single entry point of the verification machinery.

    run_check.py <Cxx> --tier quick|thorough          run the check (rewrites evidence/<Cxx>.json)
    run_check.py <Cxx> --replay <file>                re-execute one saved case without Hypothesis

exit 0: property held on everything explored (KNOWN-FINDING lines allowed)
exit 1: at least one line "VIOLATION property=<id> replay=<path>"
exit 2: harness error (never reported as a violation)
"""
import argparse
import glob
import importlib
import json
import os
import subprocess
import sys
import traceback

HERE = os.path.dirname(os.path.abspath(__file__))


def _reexec_if_needed():
    if os.environ.get("PYTHONHASHSEED") != "0" or os.environ.get("VERIF_REEXEC") != "1":
        env = dict(os.environ)
        env["PYTHONHASHSEED"] = "0"
        env["VERIF_REEXEC"] = "1"
        env["PYTHONDONTWRITEBYTECODE"] = "1"
        os.execve(sys.executable, [sys.executable] + sys.argv, env)


def _ensure_deps():
    try:
        import hypothesis  # noqa
    except ImportError:
        subprocess.run([sys.executable, "-m", "pip", "install", "-q", "--no-index", "--find-links",
                        "/opt/veriftools/wheels", "hypothesis"], check=False,
                       stdout=subprocess.DEVNULL, stderr=subprocess.DEVNULL)


def main():
    _reexec_if_needed()
    ap = argparse.ArgumentParser()
    ap.add_argument("prop")
    ap.add_argument("--tier", default=os.environ.get("VERIF_TIER", "quick"), choices=["quick", "thorough"])
    ap.add_argument("--replay")
    args = ap.parse_args()
    os.chdir(HERE)
    sys.path.insert(0, HERE)
    _ensure_deps()
    from vlib import harness
    harness.setup_paths()
    try:
        seed = int(os.environ.get("VERIF_SEED", "1"))
    except ValueError:
        seed = 1
    prop = args.prop.upper()
    try:
        harness.import_goodwe()
        mod = importlib.import_module("checks." + prop.lower())
        ctx = harness.Ctx(prop, args.tier, seed)
        if args.replay:
            with open(args.replay) as f:
                doc = json.load(f)
            case = harness.unhex(doc["case"])
            if isinstance(case, dict) and case.get("_python_O") and not harness.OPT:
                # found with the library compiled as under python -O: replay in such a process
                os.execve(sys.executable, [sys.executable] + sys.argv, dict(os.environ, VERIF_OPT="1"))
            harness.debug_logging(isinstance(case, dict) and bool(case.get("_debug_logging")))
            import warnings
            wctx = warnings.catch_warnings()
            wctx.__enter__()
            harness.warnings_as_errors(isinstance(case, dict) and bool(case.get("_warnings_as_errors")))
            try:
                if isinstance(case, dict) and "_job" in case:
                    ctx.acc.merge(harness.replay_job(mod, case))
                else:
                    mod.replay(ctx, case)
            finally:
                harness.debug_logging(False)
                harness.warnings_as_errors(False)
                wctx.__exit__(None, None, None)
            acc = ctx.acc
            rc = 0
            for key in sorted(acc.known):
                print("KNOWN-FINDING: property=%s %s -- %s" % (prop, key, harness.KNOWN[key].get("what", "")))
            for key in sorted(acc.viol):
                print("VIOLATION property=%s replay=%s" % (prop, os.path.abspath(args.replay)))
                print("  bucket=%s :: %s" % (key, acc.viol[key]["msg"][:600]))
                rc = 1
            if rc == 0:
                print("replay %s: no violation" % args.replay)
            return rc
        opt_child = opt_out = None
        if harness.OPT_PASS:
            # secondary pass (child of a normal run): same engines, one job in three, library compiled as under python -O; the
            # accumulated result goes back to the parent, which reports
            mod.run(ctx)
            with open(os.environ["VERIF_OPT_OUT"], "w") as f:
                json.dump(harness.jsonable(ctx.acc.export()), f)
            return 0
        if os.environ.get("VERIF_NO_OPT_PASS") != "1":
            import tempfile
            fd, opt_out = tempfile.mkstemp(prefix="verif_opt_", suffix=".json")
            os.close(fd)
            opt_child = subprocess.Popen([sys.executable, os.path.abspath(__file__), prop, "--tier", args.tier],
                                         env=dict(os.environ, VERIF_OPT="1", VERIF_OPT_PASS="1", VERIF_OPT_OUT=opt_out),
                                         stdout=subprocess.PIPE, stderr=subprocess.PIPE, text=True)
        # committed regression replays first (seconds)
        for path in sorted(glob.glob(os.path.join(HERE, "replays", prop, "*.json"))):
            with open(path) as f:
                doc = json.load(f)
            before = set(ctx.acc.viol)
            case = harness.unhex(doc["case"])
            harness.debug_logging(isinstance(case, dict) and bool(case.get("_debug_logging")))
            import warnings
            wctx = warnings.catch_warnings()
            wctx.__enter__()
            harness.warnings_as_errors(isinstance(case, dict) and bool(case.get("_warnings_as_errors")))
            try:
                if isinstance(case, dict) and "_job" in case:
                    ctx.acc.merge(harness.replay_job(mod, case))
                else:
                    mod.replay(ctx, case)
            finally:
                harness.debug_logging(False)
                harness.warnings_as_errors(False)
                wctx.__exit__(None, None, None)
            ctx.acc.cls("regression_replays")
            for key in set(ctx.acc.viol) - before:
                ctx.acc.viol[key]["msg"] = "[regression replay %s] %s" % (os.path.basename(path), ctx.acc.viol[key]["msg"])
        try:
            mod.run(ctx)
        finally:
            if opt_child is not None:
                c_out, c_err = opt_child.communicate()
        if opt_child is not None:
            try:
                with open(opt_out) as f:
                    exported = json.load(f)
                os.remove(opt_out)
                if opt_child.returncode != 0:
                    raise ValueError("exit %d" % opt_child.returncode)
                exported["nt"] = set(exported.get("nt", []))      # the same cases as in the primary pass (same hashes): not counted twice
                exported["nt_counted"] = 0
                ctx.acc.merge(exported)
                ctx.engines.append("secondary pass: one job in three of every sharded engine above with the goodwe modules compiled as under python -O")
            except Exception as ex:
                if os.path.exists(opt_out):
                    os.remove(opt_out)
                if not ctx.acc.viol:
                    raise harness.HarnessError("python -O pass failed (%s): %s" % (ex, (c_err or "")[-1500:]))
                ctx.acc.notes.append("python -O pass failed: %s" % ex)
        return harness.finish(ctx, level=mod.LEVEL, rule=mod.RULE, assumptions=mod.ASSUMPTIONS,
                              exhaustive=getattr(mod, "EXHAUSTIVE", None))
    except harness.HarnessError as ex:
        print("HARNESS-ERROR property=%s: %s" % (prop, ex), file=sys.stderr)
        return 2
    except Exception:
        print("HARNESS-ERROR property=%s (unexpected exception in the machinery)" % prop, file=sys.stderr)
        traceback.print_exc()
        return 2


if __name__ == "__main__":
    sys.exit(main())
