#!/usr/bin/env python3
"""Union of the line sets written by tools/linecov.sh versus the executable lines of /repo/goodwe/*.py.
Prints per file the uncovered lines grouped by enclosing function and writes coverage/linecov.json (which checks reach what)."""
import ast
import glob
import json
import os
import sys

REPO = "/repo/goodwe"
VERIF = os.path.dirname(os.path.dirname(os.path.abspath(__file__)))
per_check = {}
for d in sorted(glob.glob("/var/tmp/linecov/C*")):
    s = set()
    for f in glob.glob(d + "/*.json"):
        s |= {tuple(x) for x in json.load(open(f))}
    per_check[os.path.basename(d)] = s
allcov = set().union(*per_check.values()) if per_check else set()


def executable_lines(path):
    src = open(path).read()
    code = compile(src, path, "exec")
    lines = set()
    stack = [code]
    while stack:
        c = stack.pop()
        for _, _, ln in c.co_lines():
            if ln:
                lines.add(ln)
        stack.extend(k for k in c.co_consts if hasattr(k, "co_lines"))
    tree = ast.parse(src)
    funcs = []
    for node in ast.walk(tree):
        if isinstance(node, (ast.FunctionDef, ast.AsyncFunctionDef)):
            funcs.append((node.lineno, node.end_lineno, node.name))
    # drop docstring-only / def lines noise: keep as is
    return lines, funcs, src.splitlines()


report = {}
tot = cov = 0
for path in sorted(glob.glob(REPO + "/*.py")):
    rel = os.path.basename(path)
    lines, funcs, text = executable_lines(path)
    hit = {ln for (f, ln) in allcov if f == rel}
    miss = sorted(lines - hit)
    tot += len(lines)
    cov += len(lines & hit)
    groups = {}
    for ln in miss:
        inner = [f for f in funcs if f[0] <= ln <= f[1]]
        name = min(inner, key=lambda f: f[1] - f[0])[2] if inner else "<module>"
        groups.setdefault(name, []).append(ln)
    report[rel] = {"executable": len(lines), "covered": len(lines & hit), "uncovered": {k: v for k, v in groups.items()}}
    print("%-14s %4d/%4d" % (rel, len(lines & hit), len(lines)))
    if "-v" in sys.argv:
        for name, lns in groups.items():
            if name == "<module>":
                continue
            print("    %s: %s" % (name, lns))
            for ln in lns[:6]:
                print("        %4d  %s" % (ln, text[ln - 1].strip()[:110]))
print("total %d/%d = %.1f%%" % (cov, tot, 100.0 * cov / max(1, tot)))
os.makedirs(os.path.join(VERIF, "coverage"), exist_ok=True)
json.dump({"total_executable": tot, "total_covered": cov, "files": report,
           "per_check_lines": {k: len(v) for k, v in per_check.items()}}, open(os.path.join(VERIF, "coverage", "linecov.json"), "w"), indent=1)
