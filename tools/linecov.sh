#!/bin/sh
# Measure which lines of /repo/goodwe the generated cases of each check execute (quick tier by default).
#   sh tools/linecov.sh [tier] [Cxx ...]   -> /var/tmp/linecov/<Cxx>/*.json ; then python3 tools/linecov_report.py
# Evidence / replays of these runs go to a scratch directory: this is a measurement, not a check.
cd "$(dirname "$0")/.."
TIER=${1:-quick}; [ $# -gt 0 ] && shift
IDS=${*:-C01 C02 C03 C04 C05 C06 C07 C08 C09 C10 C11 C12 C13 C14 C15 C16 C17 C18 C19 C20}
rm -rf /var/tmp/linecov; mkdir -p /var/tmp/linecov/_ev
for c in $IDS; do
  VERIF_LINECOV=/var/tmp/linecov/$c VERIF_EVIDENCE_DIR=/var/tmp/linecov/_ev VERIF_REPLAY_DIR=/var/tmp/linecov/_ev /venv/bin/python run_check.py $c --tier $TIER | tail -1
done
