#!/bin/sh
# Quietness on the unchanged tree: every quick check at several seeds, fresh processes.
cd "$(dirname "$0")/.."
sh setup.sh >/dev/null 2>&1
rc=0
for seed in ${SEEDS:-2 3 7 42 1234}; do
  for i in 01 02 03 04 05 06 07 08 09 10 11 12 13 14 15 16 17 18 19 20; do
    out=$(VERIF_SEED=$seed /venv/bin/python run_check.py C$i --tier ${TIER:-quick} 2>&1)
    r=$?
    echo "seed=$seed C$i rc=$r $(echo "$out" | tail -1)"
    if [ $r -ne 0 ]; then rc=1; echo "$out" | grep -E "VIOLATION|bucket|HARNESS" | head -10; fi
  done
done
exit $rc
