#!/bin/sh
cd "$(dirname "$0")/.."
sh setup.sh >/dev/null 2>&1
for i in ${CHECKS:-01 02 03 04 05 06 07 08 09 10 11 12 13 14 15 16 17 18 19 20}; do
  s=$(date +%s)
  out=$(/venv/bin/python run_check.py C$i --tier thorough 2>&1); r=$?
  e=$(date +%s)
  echo "C$i rc=$r wall=$((e-s))s $(echo "$out" | tail -1)"
  if [ $r -ne 0 ]; then echo "$out" | grep -E "VIOLATION|bucket|HARNESS|Error" | head -10; fi
done
