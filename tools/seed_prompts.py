#!/usr/bin/env python3
"""Generate the prompts for a round of independently written breaking changes (sub-agents).

    seed_prompts.py <round-number> <suffixes-of-earlier-rounds, e.g. ",b,c,d"  or "-" for an undisclosed round> [ids...]

Creates one scratch worktree of /repo per property under /tmp/w<round>_cNN and writes /tmp/agent<round>_prompt_Cxx.txt.
Each prompt contains ONLY the property text, the worktree path and one-line summaries of the earlier changes for that
property (so that the new one uses another mechanism) - nothing from /verif.  The template is the round-2 prompt of C04.
Evaluate with tools/seeded_eval.py Cxx /tmp/w<round>_cNN --suffix <letter>; remove the worktrees afterwards.
"""
import json
import os
import subprocess
import sys

VERIF = os.path.dirname(os.path.dirname(os.path.abspath(__file__)))
rnd = sys.argv[1]
sfx = sys.argv[2].split(",")
ids = sys.argv[3:] or ["C%02d" % i for i in range(1, 21)]
props = {}
for l in open(os.path.join(VERIF, "properties.jsonl")):
    p = json.loads(l)
    props[p["id"]] = "Title: %s\nStatement: %s\nQuantified over: %s" % (p["title"], p["statement"], p["quantifier"]["text"])
base = open(os.path.join(VERIF, "tools", "seed_prompt_template_C04.txt")).read()
prev04 = json.load(open(os.path.join(VERIF, "seeded", "C04", "meta.json"))).get("summary", "")
assert "PREVIOUS CHANGE: " + prev04 in base
for pid in ids:
    wt = "/tmp/w%s_c%s" % (rnd, pid[1:])
    if not os.path.isdir(wt):
        subprocess.run(["git", "-C", "/repo", "worktree", "add", "-q", "--detach", wt, "HEAD"], check=True)
    ps = [] if sfx == ["-"] else [json.load(open(os.path.join(VERIF, "seeded", pid + s, "meta.json"))).get("summary", "").replace("\n", " ") for s in sfx]
    t = base.replace("/tmp/w2_c04", wt).replace(props["C04"], props[pid]).replace('"property": "C04"', '"property": "%s"' % pid)
    listing = "\n".join(" %d. %s" % (i + 1, s) for i, s in enumerate(ps))
    t = t.replace("PREVIOUS CHANGE: " + prev04,
                  "PREVIOUS CHANGES (%d engineers before you; all of these are detected by the project's checkers today):\n%s\n"
                  "Think hard about clauses of the property, code paths, families / transports / firmware variants, entry points, "
                  "argument values and call histories that NONE of them touched; prefer a change whose effect is only visible through "
                  "the property's own observation points under a rare combination of conditions. Only report completion after "
                  "patch.diff, demo_break.py and meta.json are final; make sure demo_break.py always terminates (use os._exit if "
                  "necessary) within 60 seconds." % (len(ps), listing))
    if not ps:     # an undisclosed round: no hint about earlier changes at all
        i0 = t.index("IMPORTANT - a previous engineer")
        i1 = t.index("\n", t.index("PREVIOUS CHANGES (0 engineers"))
        i1 = t.index("Deliverables (all inside", i1)
        t = t[:i0] + "Only report completion after patch.diff, demo_break.py and meta.json are final; make sure demo_break.py always terminates (use os._exit if necessary) within 60 seconds.\n\n" + t[i1:]
    t = t.replace("a previous engineer already produced this change for the same property; yours must use",
                  "previous engineers already produced changes for the same property; yours must use")
    if os.environ.get("SEED_HINTS"):      # SEED_HINTS=<hints file>:<index>  - one extra line that steers the author (a clause, a file, a situation)
        hf, hi = os.environ["SEED_HINTS"].rsplit(":", 1)
        hint = json.load(open(os.path.join(VERIF, "tools", hf)))[pid][int(hi)]
        t = t.replace("Deliverables (all inside", "FOCUS: %s.\n\nDeliverables (all inside" % hint, 1)
    open("/tmp/agent%s_prompt_%s.txt" % (rnd, pid), "w").write(t)
print("ok", len(ids))
