#!/usr/bin/env python3
"""File a finished round of sub-agent changes: seeded_file_round.py <suffix> "<round label>" "<origin>" [Cxx=detection history ...]

For every seeded/<id><suffix>/meta.json: add `round` and `detection_history` (default: caught at the first try by the check
named in verified_by_verif.caught_by) and append the patch to mutants/INDEX.json (once).  Prints the DESIGN section-15 table rows.
"""
import json
import os
import sys

VERIF = os.path.dirname(os.path.dirname(os.path.abspath(__file__)))
sfx, label, origin = sys.argv[1:4]
hist = dict(a.split("=", 1) for a in sys.argv[4:])
idx_path = os.path.join(VERIF, "mutants", "INDEX.json")
idx = json.load(open(idx_path))
have = {m["patch"] for m in idx["mutants"]}
for i in range(1, 21):
    pid = "C%02d" % i
    d = os.path.join(VERIF, "seeded", pid + sfx)
    mp = os.path.join(d, "meta.json")
    if not os.path.exists(mp):
        print("| %s%s | (no valid change delivered) | | |" % (pid, sfx))
        continue
    m = json.load(open(mp))
    caught = m.get("verified_by_verif", {}).get("caught_by", [])
    m["round"] = label
    m["detection_history"] = hist.get(pid, "Caught at the first try by %s." % ", ".join(caught) if caught else "NOT CAUGHT")
    json.dump(m, open(mp, "w"), indent=1)
    patch = "seeded/%s%s/patch.diff" % (pid, sfx)
    if patch not in have and caught:
        idx["mutants"].append({"patch": patch, "checks": caught, "origin": origin})
    cb = ", ".join(caught) + (" (after strengthening)" if pid in hist else "")
    print("| %s%s | %s | %s | %s |" % (pid, sfx, m.get("summary", "").replace("\n", " ").replace("|", "/")[:220], m.get("needs_to_manifest", "").replace("\n", " ").replace("|", "/")[:170], cb))
json.dump(idx, open(idx_path, "w"), indent=1)
