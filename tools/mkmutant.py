#!/usr/bin/env python3
"""mkmutant.py <name> <repo-relative file> <<< JSON {"old": "...", "new": "..."}  -> mutants/<name>.patch (unified diff vs /repo)."""
import difflib, json, sys, os
name, rel = sys.argv[1], sys.argv[2]
spec = json.load(sys.stdin)
src = open(os.path.join("/repo", rel)).read()
assert src.count(spec["old"]) == 1, "old text must occur exactly once (%d)" % src.count(spec["old"])
dst = src.replace(spec["old"], spec["new"])
diff = "".join(difflib.unified_diff(src.splitlines(True), dst.splitlines(True), "a/" + rel, "b/" + rel))
out = os.path.join(os.path.dirname(os.path.dirname(os.path.abspath(__file__))), "mutants", name + ".patch")
open(out, "w").write(diff)
print(out)
