#!/venv/bin/python
"""atheris target for C01: coverage-guided search over byte strings fed to a response validator, with the
acceptance oracle N inside the target.  Invoked by checks/c01.py (thorough tier) as
    C01_FRAMING=rtu C01_OUT=<dir> atheris_c01.py <corpus dir> -max_total_time=.. -seed=..
A violation is written to $C01_OUT/finding.json and the process exits (libFuzzer stops at the first failure)."""
import json
import os
import sys

HERE = os.path.dirname(os.path.dirname(os.path.abspath(__file__)))
sys.path.insert(0, HERE)
from vlib import harness  # noqa: E402

harness.setup_paths()
import atheris  # noqa: E402

with atheris.instrument_imports(include=["goodwe"]):
    harness.import_goodwe()
    import goodwe.modbus  # noqa
    import goodwe.protocol  # noqa

from vlib import refwire as rw  # noqa: E402
from checks import c01  # noqa: E402

FRAMING = os.environ.get("C01_FRAMING", "rtu")
OUT = os.environ.get("C01_OUT", ".")
CMDS = []
for i in range(12):
    CMDS.extend(c01.commands_for(FRAMING, i))


def TestOneInput(data: bytes):
    if len(data) < 2:
        return
    cc = CMDS[data[0] % len(CMDS)]
    mode = data[1] & 3
    x = data[2:]
    if mode == 1:      # the input is an edit script applied to the valid frame: (pos, value) pairs
        b = bytearray(cc.F)
        for k in range(0, len(x) - 1, 2):
            if b:
                b[x[k] % len(b)] = x[k + 1]
        x = bytes(b)
    if mode >= 2 and len(x) >= 6:  # re-seal the checksum so that the fuzzer gets past the checksum gate
        if FRAMING == "rtu":
            x = x[:-2] + rw.crc_bytes(x[2:-2])
        elif FRAMING == "aa55":
            x = x[:-2] + rw.u16(rw.sum16(x[:-2]))
    acc = harness.Acc()
    if c01.judge(acc, cc, x, "atheris"):
        key, v = next(iter(acc.viol.items()))
        with open(os.path.join(OUT, "finding.json"), "w") as f:
            json.dump({"key": key, "msg": v["msg"], "case": v["case"]}, f)
        raise RuntimeError("C01 violation: " + key)


if __name__ == "__main__":
    atheris.Setup(sys.argv, TestOneInput)
    atheris.Fuzz()
