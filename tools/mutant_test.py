#!/usr/bin/env python3
"""Sensitivity self-test: apply a patch to a scratch copy of /repo, confirm the repo's own tests still pass on
the copy, then run the named checks against the copy (VERIF_REPO) and expect exit 1 with a VIOLATION line.

    mutant_test.py <patch.diff> <Cxx> [<Cyy> ...] [--tier quick] [--keep]
    mutant_test.py --all           run every mutants/*.patch and seeded/*/patch.diff listed in mutants/INDEX.json

The scratch copy lives under /var/tmp and is removed afterwards.
"""
import json
import os
import shutil
import subprocess
import sys
import time

VERIF = os.path.dirname(os.path.dirname(os.path.abspath(__file__)))
REPO = "/repo"


def run_one(patch, checks, tier="quick", seed="1", verbose=True):
    import threading
    scratch = "/var/tmp/goodwe_mut_%d_%d_%d" % (os.getpid(), threading.get_ident() % 100000, int(time.time() * 1000) % 100000)
    shutil.rmtree(scratch, ignore_errors=True)
    shutil.copytree(REPO, scratch, ignore=shutil.ignore_patterns(".git", "__pycache__", ".pytest_cache"))
    res = {"patch": patch, "checks": {}}
    try:
        p = subprocess.run(["patch", "-p1", "-s", "-i", os.path.abspath(patch)], cwd=scratch, capture_output=True, text=True)
        if p.returncode != 0:
            res["error"] = "patch does not apply: " + p.stdout + p.stderr
            return res
        t = subprocess.run(["/venv/bin/python", "-m", "pytest", "-q", "-x", "-p", "no:cacheprovider"], cwd=scratch,
                           capture_output=True, text=True)
        res["repo_tests_pass"] = t.returncode == 0
        if t.returncode != 0:
            res["repo_tests_tail"] = t.stdout[-400:]
        for c in checks:
            env = dict(os.environ, VERIF_REPO=scratch, VERIF_SEED=seed, VERIF_EVIDENCE_DIR=os.path.join(scratch, "_evidence"),
                       VERIF_REPLAY_DIR=os.path.join(scratch, "_replays"))
            t0 = time.time()
            r = subprocess.run(["/venv/bin/python", os.path.join(VERIF, "run_check.py"), c, "--tier", tier],
                               cwd=VERIF, capture_output=True, text=True, env=env)
            viol = [l for l in r.stdout.splitlines() if l.startswith("VIOLATION")]
            buckets = [l.strip() for l in r.stdout.splitlines() if l.strip().startswith("bucket=")]
            res["checks"][c] = {"rc": r.returncode, "violations": len(viol), "wall": round(time.time() - t0, 1),
                                "buckets": [b[:200] for b in buckets[:4]]}
            if r.returncode == 2:
                res["checks"][c]["stderr"] = r.stderr[-600:]
    finally:
        shutil.rmtree(scratch, ignore_errors=True)
    if verbose:
        ok = res.get("repo_tests_pass")
        for c, v in res["checks"].items():
            print("%-60s %s repo-tests=%s rc=%d viol=%d %.0fs %s" % (os.path.relpath(patch, VERIF)[-60:], c, "pass" if ok else "FAIL",
                                                                   v["rc"], v["violations"], v["wall"], (v["buckets"] or [""])[0][:110]))
        if "error" in res:
            print("ERROR", patch, res["error"])
    return res


def main():
    args = sys.argv[1:]
    tier = "quick"
    if "--tier" in args:
        i = args.index("--tier")
        tier = args[i + 1]
        del args[i:i + 2]
    seed, jobs, out = "1", 1, os.path.join(VERIF, "mutants", "RESULTS.json")
    for opt in ("--seed", "--jobs", "--out"):
        if opt in args:
            i = args.index(opt)
            val = args[i + 1]
            del args[i:i + 2]
            if opt == "--seed":
                seed = val
            elif opt == "--jobs":
                jobs = int(val)
            else:
                out = val
    if args and args[0] == "--all":
        with open(os.path.join(VERIF, "mutants", "INDEX.json")) as f:
            index = json.load(f)
        only = args[1:]
        todo = [e for e in index["mutants"] if not only or any(o in e["patch"] or o in e["checks"] for o in only)]
        from concurrent.futures import ThreadPoolExecutor
        with ThreadPoolExecutor(max_workers=jobs) as ex:
            results = list(ex.map(lambda e: run_one(os.path.join(VERIF, e["patch"]), e["checks"], tier, seed), todo))
        missed = [r for r in results if any(v["rc"] != 1 for v in r["checks"].values()) or not r.get("repo_tests_pass")]
        print("%d mutants, %d not detected / not valid (seed %s)" % (len(results), len(missed), seed))
        with open(out, "w") as f:
            json.dump(results, f, indent=1)
        return 1 if missed else 0
    patch, checks = args[0], args[1:]
    r = run_one(patch, checks, tier, seed)
    return 0 if all(v["rc"] == 1 for v in r["checks"].values()) else 1


if __name__ == "__main__":
    sys.exit(main())
