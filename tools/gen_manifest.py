#!/usr/bin/env python3
"""Generate /verif/MANIFEST.json from the table below (keeps the manifest valid at all times)."""
import json, os

HERE = os.path.dirname(os.path.dirname(os.path.abspath(__file__)))
ALL = ["C%02d" % i for i in range(1, 21)]

CHECKS = {
    "C03": dict(
        category="exploration",
        text="Every request constructor is swept exhaustively per 16-bit argument (register, value, address x count, "
             "payload length) and sampled jointly by Hypothesis; each frame is decoded by an independently written strict "
             "parser and compared with the intended operation; Modbus/TCP transaction ids are followed across two wraps. "
             "Exploration, because the joint argument space (2^40+) is sampled, not enumerated.",
        design_ref="DESIGN.md section 4, C03",
        note="Trusted: vlib/refwire.py as the specification of the framings (CRC self-check 0x4B37). AA55 0x011A/0x0239 "
             "payload layout is vendor defined: only envelope, length byte, checksum and position of the argument bytes are checked.",
        technique="exhaustive per-argument enumeration + Hypothesis sampling, round-trip against independent decoder",
        engine="refwire",
    ),
    "C04": dict(
        category="fault_enumeration",
        text="The real UDP/TCP protocol objects run on a virtual-clock asyncio loop against a scripted peer; every fault "
             "script of length retries+1 <= 3 over the 13-action alphabet of the property (plus TCP connect outcomes) is "
             "enumerated per transport/keep-alive, deeper scripts and free delays are sampled with Hypothesis. The oracle "
             "bounds transmissions, connect attempts and completion time and pins the silent-peer schedule exactly. "
             "'Never hangs' is decidable because an empty ready queue with no timer raises Hang.",
        design_ref="DESIGN.md section 4, C04; section 3, E2",
        note="Trusted: vlib/vloop.py transcription of CPython 3.12 selector transport semantics; kernel/DNS/ICMP timing out of scope. "
             "Delays on a T/16 grid, never exactly T.",
        technique="exhaustive fault-script enumeration + Hypothesis, on a virtual-clock event loop with in-memory transports",
        engine="vloop",
    ),
    "C05": dict(
        category="exploration",
        text="Histories of request outcomes (success, exhausted, rejected, transport errors, close(), new event loop) on one "
             "protocol object are enumerated to length 2 and sampled to length 8; after each prefix a probe request against a "
             "silent peer must show exactly retries+1 transmissions spaced exactly one timeout, and a probe answered on its last "
             "retransmission must succeed. connect()/discover()/search_inverters() are run against a silent peer for a grid of "
             "(timeout, retries) and every probe they send must obey the given values.",
        design_ref="DESIGN.md section 4, C05",
        note="Trusted: vlib/vloop.py; exact comparison of virtual times (all delays are binary fractions).",
        technique="history enumeration + Hypothesis over request-outcome sequences, virtual clock, exact schedule oracle",
        engine="vloop",
    ),
    "C02": dict(
        category="exploration",
        text="Conforming response frames are built by the independent reference codec for every command kind, every read "
             "count 1..125 and every AA55 payload length 0..255 with all-00/all-FF/7F-80/FE/patterned contents, any comm "
             "address, optional trailing bytes after RTU frames; the validator must return True, ProtocolResponse must deliver "
             "exactly the payload (whole and per register) and a sample runs end-to-end through execute() on the virtual loop.",
        design_ref="DESIGN.md section 4, C02; D2",
        note="Trusted: vlib/refwire.py as definition of 'conforming'; AA55 checksum modulo 2^16.",
        technique="enumeration of lengths x content classes + Hypothesis, builder-vs-validator differential, end-to-end sample",
        engine="refwire",
    ),
    "C07": dict(
        category="exploration",
        text="Every split point of a read response is enumerated for several counts/lengths, both keep-alive settings and five "
             "timings; the exact remainder within the timeout must give the unsplit frame with one transmission. Wrong second "
             "pieces (+-bytes, flipped bit, garbage, other request's tail, complete frames) and leftovers across retransmissions "
             "are enumerated on a grid and sampled by Hypothesis; a successful result must be one delivered datagram or two "
             "pieces received during the same transmission, and on checksummed framings never head+foreign bytes.",
        design_ref="DESIGN.md section 4, C07",
        note="Trusted: vlib/vloop.py delivery labelling; success demanded only when both pieces arrive before transmission+timeout; "
             "2^-16 CRC coincidences are classified, not reported.",
        technique="exhaustive split-point enumeration + Hypothesis delivery lists, provenance oracle on a virtual-clock loop",
        engine="vloop",
    ),
    "C08": dict(
        category="exploration",
        text="All 256 exception codes x read/write/write-multi x RTU-over-UDP and Modbus/TCP x keep-alive x first/last "
             "transmission are enumerated: the request must fail with RequestRejectedException exactly when the exception frame "
             "is delivered, with no further transmission, and the message must be the Modbus reason (codes 1-3 verbatim, unknown "
             "codes 'UNKNOWN'); frames with a wrong CRC must not be rejections; the reason table must be injective.",
        design_ref="DESIGN.md section 4, C08",
        note="Trusted: vlib/vloop.py, Modbus application protocol names (SLAVE/SERVER wording normalised for codes 4-11).",
        technique="exhaustive code enumeration + Hypothesis timing/configuration sampling on a virtual-clock loop",
        engine="vloop",
    ),
    "C06": dict(
        category="exploration",
        text="2..4 tasks call execute() on one protocol object with generated start offsets; the peer tags every answer with "
             "the requested register (same count: frames indistinguishable to the validator) and drops, delays or fragments "
             "per transmission. Oracle: no transmission while another is still waiting for its answer, every caller gets the "
             "payload of its own register, every caller terminates. All 2-caller schedules over an offset grid x 64 scripts are "
             "enumerated; 3-4 callers sampled. Schedules are owned by the harness (virtual clock), so interleavings are inputs.",
        design_ref="DESIGN.md section 4, C06",
        note="Precondition of the property built into the generator (each transmission answered at most once, before its timeout; "
             "fragments contain the header). Trusted: vlib/vloop.py.",
        technique="schedule enumeration + Hypothesis over caller offsets and fault scripts on a virtual-clock loop",
        engine="vloop",
    ),
    "C10": dict(
        category="exploration",
        text="Histories of requests (fault classes incl. transport-killing ones), close(), event-loop changes and waits on one "
             "protocol object; the in-memory transports log every open/close. Oracle: never two transports open, none open after a "
             "request with keep-alive off or after close(), the same transport reused by consecutive successful keep-alive "
             "requests, and a promptly answered request succeeds after any history. Histories up to length 2 (quick) / 3 (thorough) "
             "enumerated, longer ones generated by a Hypothesis rule-based state machine.",
        design_ref="DESIGN.md section 4, C10",
        note="Trusted: open/close accounting of vlib/vloop.py fake transports (transcribed from CPython 3.12 selector_events).",
        technique="history enumeration + Hypothesis RuleBasedStateMachine on a virtual-clock loop with instrumented transports",
        engine="vloop",
    ),
    "C09": dict(
        category="exploration",
        text="(A) every public coroutine of ET/DT/ES objects and connect/discover/search_inverters runs against a simulated "
             "inverter behind a scripted network with C04's faults plus OS errors (five errnos; raised by the send, delivered later, "
             "delivered after the request completed) and TCP connect failures: only InverterError may escape and the loop's exception "
             "handler must stay silent. (B) all histories over {success, failed, rejected} of length <= 8 on one Inverter are "
             "enumerated and consecutive_failures_count compared with a reference counter. (C) Hypothesis-generated identification "
             "payloads (random, ASCII with one foreign byte, embedded model tags; any AA55 length) are served to discover() and "
             "read_device_info() of all families.",
        design_ref="DESIGN.md section 4, C09; D3, D9",
        note="Trusted: vlib/vloop.py + vlib/siminv.py. ValueError accepted where the documented contract is 'unknown sensor/setting' "
             "after a Modbus exception answer; rejected requests neither count nor reset (D3).",
        technique="fault-script enumeration + Hypothesis on a virtual-clock loop; exhaustive outcome histories vs reference counter; generated payloads",
        engine="vloop+siminv",
    ),
    "C01": dict(
        category="exploration",
        text="For a deterministic family of commands per framing the valid answer is built by the reference codec and the "
             "validator is run on EVERY truncation, EVERY single-bit flip, all 256 values at every header/length/echo/checksum "
             "position, inserted/deleted/duplicated slices, trailing junk, answers to other requests/framings and exception frames; "
             "Hypothesis adds multi-byte mutations with re-sealed checksums, splices and random bytes; atheris (thorough) fuzzes the "
             "validators coverage-guided with the oracle inside the target. Outcomes must be accept/refuse/partial/rejected only, "
             "accept implies the independent acceptance predicate N, partial implies length == len(x) < expected; a sample is served "
             "end-to-end and execute() may only return bytes that satisfy N and were actually sent.",
        design_ref="DESIGN.md section 4, C01; D1",
        note="N contains exactly the conditions the property enumerates (not the AA55 marker / comm address / MBAP fields). "
             "Trusted: vlib/refwire.py.",
        technique="exhaustive structured mutation neighbourhood + Hypothesis + atheris, implication oracle against an independent predicate",
        engine="refwire+vloop",
    ),
    "C11": dict(
        category="exploration",
        text="Every table of ET/DT/ES is decoded with _map_response for block classes all-00/all-FF/7FFF/8000/sentinel mixes/"
             "patterned/Hypothesis words (ES: every announced payload length 0..255); the public bulk and single-value calls run on "
             "simulated inverters with generated register images; every eco-mode/schedule group sensor type has EACH 16-bit field "
             "swept over all 65,536 values on six base patterns; a metamorphic step makes one sensor undecodable and requires all "
             "other values unchanged. Only values/None (bulk) or values/ValueError (single) are accepted, every id must be present.",
        design_ref="DESIGN.md section 4, C11",
        note="Trusted: vlib/siminv.py exact-length answers. DT.read_settings_data is outside the property.",
        technique="block-class enumeration + exhaustive per-field sweeps + Hypothesis, totality oracle (exception-type bucketing)",
        engine="siminv+refsensor",
    ),
    "C12": dict(
        category="exploration",
        text="For every typed sensor object found by walking the class tables of ET/DT/ES (runtime and settings) the value read "
             "from a generated block must equal an independently written per-type reference decoder applied to the bytes at "
             "(offset - first) x 2 (AA55: plain offset), for several window starts and both Modbus framings, and must not change "
             "when every foreign byte of the block is re-randomised. 1/2-byte fields are swept exhaustively (quick: one instance per "
             "type + 250 values per instance; thorough: every instance), wide fields get boundary/patterned/Hypothesis values.",
        design_ref="DESIGN.md section 4, C12; D4",
        note="Trusted: vlib/refsensor.py (docstrings, scales named by the property, sentinels pinned by tests/test_sensor.py); "
             "addresses come from the tables themselves (D4).",
        technique="exhaustive 16-bit sweeps + Hypothesis, differential against an independent reference decoder, non-interference metamorphic check",
        engine="refsensor",
    ),
    "C13": dict(
        category="exploration",
        text="Each table is decoded with _map_response and every derived value is recomputed from the raw values of the same "
             "dictionary: labels via the const tables (which table belongs to which label is written in the check), bitmap labels "
             "from the set bits of their code word(s), sums, V x I products within 0.5 of the exact rational, sign/direction rules. "
             "Every 16-bit value of every code word of every pair is enumerated; blocks with sentinels and Hypothesis word lists "
             "cover sums/products. A guard fails the run (exit 2) if a label/computed sensor has no relation.",
        design_ref="DESIGN.md section 4, C13",
        note="Label texts come from goodwe/const.py (a changed text is not a violation, a sensor wired to the wrong table is).",
        technique="exhaustive code-word enumeration + Hypothesis, relational oracle inside one decoded result",
        engine="refsensor",
    ),
    "C14": dict(
        category="exploration",
        text="The finite space of Modbus model configurations (every serial tag of goodwe/model.py incl. 25KET/29K9ET and a neutral "
             "tag x 3 rated-power classes x battery on/off x all 32 subsets of refused optional blocks x UDP/TCP for ET; tags x 8 "
             "refusal subsets x UDP/TCP for DT) is enumerated completely. read_device_info() and two read_runtime_data() calls run "
             "against a simulated inverter returning exact-length answers with ProtocolResponse.read instrumented: every read "
             "performed while a sensor is decoded must return as many bytes as requested.",
        design_ref="DESIGN.md section 4, C14",
        note="exhaustive over the stated configuration space; observes only reads through ProtocolResponse.read (all sensor decoding).",
        technique="complete configuration enumeration with instrumented reads on a simulated inverter",
        engine="siminv",
    ),
    "C15": dict(
        category="exploration",
        text="For every serial tag x power class x refusal subset x battery state (stable 3-call sequences, enumerated) and for "
             "Hypothesis-generated sequences whose refusal set / battery state changes between calls, read_runtime_data() is run "
             "against a simulated inverter; whenever a call returns, its key set must equal the ids of sensors() and both must agree "
             "with a stateful reference capability model; a call may fail only in the documented double meter fallback and the next "
             "call must succeed. About 1% of the cases also run end-to-end on the virtual loop.",
        design_ref="DESIGN.md section 4, C15",
        note="Reference capability model written from the documented model rules (745 platform / rated power thresholds, sticky flags).",
        technique="configuration enumeration + Hypothesis call sequences against a simulated inverter with a reference capability model",
        engine="siminv",
    ),
    "C16": dict(
        category="exploration",
        text="After read_device_info(), histories of {bulk read, battery appearing/disappearing, blocks starting/stopping to be refused, "
             "second read_device_info, read_sensor of every listed id} run against a register file that is constant between a bulk "
             "read and the single reads compared with it: read_sensor(id) must equal the bulk value (or raise ValueError where the bulk "
             "value is None) and never fail with NotImplementedError/unknown sensor for a listed id. All (tag, power class) x image "
             "classes are enumerated for the plain history, capability-changing histories come from Hypothesis.",
        design_ref="DESIGN.md section 4, C16",
        note="Simulated register file, direct path (request building, validation, ProtocolResponse are the library's own).",
        technique="configuration x register-image enumeration + Hypothesis histories, single-vs-bulk differential",
        engine="siminv",
    ),
    "C17": dict(
        category="exploration",
        text="For every setting with an encoder of ET (base/fw19/fw22), DT (single/three phase) and the register-addressed ES "
             "settings (eco V1 over AA55, eco V2 over Modbus, switches), write_setting(id, v) runs against a simulated register file "
             "with an arbitrary prior image: exactly one write, addressed to the setting, with exactly ceil(size/2) registers holding "
             "the reference encoding (one-byte settings merged with the prior other half); no other register changes; read_setting "
             "returns v. Value domains of 1/2-byte types are enumerated completely (quick: one instance per type; thorough: every "
             "instance), wide types and groups get boundary/patterned/Hypothesis values; a sample runs end-to-end on all three framings.",
        design_ref="DESIGN.md section 4, C17; D5",
        note="The simulator is the reference model; all-ones words (read sentinel) are outside the domain (D5); decimals passed as the float nearest k/scale.",
        technique="exhaustive value-domain enumeration + Hypothesis, model-based round trip against a simulated register file",
        engine="siminv+refsensor",
    ),
    "C18": dict(
        category="exploration",
        text="Simulated inverters log every request after strict parsing. (R) Every read-only call (ids swept over all sensors/settings) "
             "and Hypothesis-generated call sequences over model configurations with refused blocks, plus connect()/discover() "
             "end-to-end, must transmit no function 06/16 and no AA55 02xx/03xx request. (S) Setters with arguments from wide integer "
             "ranges around the valid intervals (export limit < 0, DoD outside 0..100, eco power/SoC outside 0..100, unknown ids) must "
             "transmit no write and raise ValueError where documented; in-range control calls must write (non-vacuity).",
        design_ref="DESIGN.md section 4, C18",
        note="Write class as classified by the simulator and, for the entry points, independently from the raw bytes at the peer.",
        technique="API x configuration enumeration + Hypothesis call sequences, request-log invariant on a simulated inverter",
        engine="siminv",
    ),
    "C19": dict(
        category="exploration",
        text="Encoder level: encode_charge/encode_discharge for all power 1..100 x SoC 0..100 x {eco V1, schedule types ECO_MODE, "
             "ECO_MODE_745} are decoded by the reference and by the library. API level: every mode of get_operation_modes(True) x every "
             "prior content of the eco-mode groups (each schedule type on/off, unset, zeros, ones, 24/7 charge/discharge, garbage) x 7 "
             "ET/ES firmware variants x a (power, SoC) grid + Hypothesis samples run against a simulated inverter: the getter must "
             "return the mode, group 1 must decode to the requested power/SoC as an enabled 24/7 group, groups 2-4 must be off. Export "
             "limits and DoD values are enumerated for ET/ES/DT.",
        design_ref="DESIGN.md section 4, C19; D6",
        note="ES vendor commands act on the simulator as transcribed from es.py (constants not independently known); eco V1 has no SoC register (D6).",
        technique="exhaustive encoder grid + mode x prior-content enumeration + Hypothesis, model-based round trip",
        engine="siminv+refsensor",
    ),
    "C20": dict(
        category="exploration",
        text="Two inverter objects (7 variants, UDP/TCP) on two simulators with different contents execute two call sequences under a "
             "generated interleaving; the case runs three times (A alone, B alone, interleaved), each in a freshly imported library. "
             "Requests per object (transaction id masked) and results snapshotted at return time must be identical between solo and "
             "interleaved runs, and every returned value must keep its return-time snapshot until the end. All ordered variant pairs x "
             "sequence styles are enumerated, sequences and merges are sampled by Hypothesis.",
        design_ref="DESIGN.md section 4, C20",
        note="Fresh import (sys.modules purge) as uncontaminated baseline; structural snapshots of returned objects.",
        technique="differential solo-vs-interleaved execution over generated interleavings with fresh-import isolation",
        engine="siminv",
    ),
}

def main():
    checks = []
    for pid in ALL:
        if pid not in CHECKS:
            continue
        c = CHECKS[pid]
        checks.append({
            "property_id": pid,
            "quick_cmd": "/venv/bin/python run_check.py %s --tier quick" % pid,
            "thorough_cmd": "/venv/bin/python run_check.py %s --tier thorough" % pid,
            "evidence_file": "evidence/%s.json" % pid,
            "replay_cmd_template": "/venv/bin/python run_check.py %s --replay {path}" % pid,
            "engine": c.get("engine", ""),
            "level_claimed": {"category": c["category"], "text": c["text"], "design_ref": c["design_ref"]},
            "level_note": c["note"],
            "technique": c["technique"],
        })
    na = [{"property_id": p, "reason": "check not built yet (work in progress; see DESIGN.md section 10 build order)"}
          for p in ALL if p not in CHECKS]
    man = {
        "version": 1,
        "setup_cmd": "sh setup.sh",
        "hooks": {
            "guard": "GOODWE_VERIF",
            "enable": "no source hooks: the event loop, transports and simulated inverters are injected from outside "
                      "through asyncio's public extension points; checks import /repo/goodwe afresh in a new process",
            "baseline_off_cmd": "cd /repo && /venv/bin/python -m pytest -ra -q -p no:cacheprovider --timeout=900 --continue-on-collection-errors",
            "source_commits": [],
            "add_only": True,
        },
        "engines": [
            {"name": "refwire", "path": "vlib/refwire.py", "serves_properties": ["C01", "C02", "C03", "C07", "C08"],
             "kind_free_text": "independent reference codec for Modbus RTU / Modbus TCP / AA55 framings"},
            {"name": "vloop", "path": "vlib/vloop.py", "serves_properties": ["C01", "C02", "C03", "C04", "C05", "C06", "C07", "C08", "C09", "C10"],
             "kind_free_text": "virtual-clock asyncio event loop with in-memory UDP/TCP transports and a scripted peer"},
            {"name": "siminv", "path": "vlib/siminv.py", "serves_properties": ["C09", "C14", "C15", "C16", "C17", "C18", "C19", "C20"],
             "kind_free_text": "register-file simulated inverters (Modbus for ET/DT, AA55 for ES)"},
            {"name": "refsensor", "path": "vlib/refsensor.py", "serves_properties": ["C11", "C12", "C13", "C16", "C17"],
             "kind_free_text": "reference sensor decoder/encoder per sensor type"},
            {"name": "harness", "path": "vlib/harness.py", "serves_properties": ALL,
             "kind_free_text": "Hypothesis driver with search continuation, sharding, root-cause bucketing, evidence, replay"},
        ],
        "checks": checks,
        "not_applicable": na,
        "notes": "All checks: /venv/bin/python run_check.py <id> --tier quick|thorough; VERIF_SEED selects the seed. "
                 "known_findings.json lists genuine defects (known / fixed).",
    }
    with open(os.path.join(HERE, "MANIFEST.json"), "w") as f:
        json.dump(man, f, indent=1)
    print("MANIFEST.json: %d checks, %d not_applicable" % (len(checks), len(na)))

if __name__ == "__main__":
    main()
