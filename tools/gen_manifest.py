#!/usr/bin/env python3
"""Generate /verif/MANIFEST.json from the table below (keeps the manifest valid at all times)."""
import json, os

HERE = os.path.dirname(os.path.dirname(os.path.abspath(__file__)))
ALL = ["C%02d" % i for i in range(1, 21)]

CHECKS = {
    "C03": dict(
        category="exploration",
        text="Every request constructor is swept exhaustively per 16-bit argument (register, value, address x count, "
             "payload length) and sampled jointly by Hypothesis; each frame is decoded by an independently written strict "
             "parser and compared with the intended operation; Modbus/TCP transaction ids are followed across two wraps. "
             "Exploration, because the joint argument space (2^40+) is sampled, not enumerated.",
        design_ref="DESIGN.md section 4, C03",
        note="Trusted: vlib/refwire.py as the specification of the framings (CRC self-check 0x4B37). AA55 0x011A/0x0239 "
             "payload layout is vendor defined: only envelope, length byte, checksum and position of the argument bytes are checked.",
        technique="exhaustive per-argument enumeration + Hypothesis sampling, round-trip against independent decoder",
        engine="refwire",
    ),
    "C04": dict(
        category="fault_enumeration",
        text="The real UDP/TCP protocol objects run on a virtual-clock asyncio loop against a scripted peer; every fault "
             "script of length retries+1 <= 3 over the 13-action alphabet of the property (plus TCP connect outcomes) is "
             "enumerated per transport/keep-alive, deeper scripts and free delays are sampled with Hypothesis. The oracle "
             "bounds transmissions, connect attempts and completion time and pins the silent-peer schedule exactly. "
             "'Never hangs' is decidable because an empty ready queue with no timer raises Hang.",
        design_ref="DESIGN.md section 4, C04; section 3, E2",
        note="Trusted: vlib/vloop.py transcription of CPython 3.12 selector transport semantics; kernel/DNS/ICMP timing out of scope. "
             "Delays on a T/16 grid, never exactly T.",
        technique="exhaustive fault-script enumeration + Hypothesis, on a virtual-clock event loop with in-memory transports",
        engine="vloop",
    ),
    "C05": dict(
        category="exploration",
        text="Histories of request outcomes (success, exhausted, rejected, transport errors, close(), new event loop) on one "
             "protocol object are enumerated to length 2 and sampled to length 8; after each prefix a probe request against a "
             "silent peer must show exactly retries+1 transmissions spaced exactly one timeout, and a probe answered on its last "
             "retransmission must succeed. connect()/discover()/search_inverters() are run against a silent peer for a grid of "
             "(timeout, retries) and every probe they send must obey the given values.",
        design_ref="DESIGN.md section 4, C05",
        note="Trusted: vlib/vloop.py; exact comparison of virtual times (all delays are binary fractions).",
        technique="history enumeration + Hypothesis over request-outcome sequences, virtual clock, exact schedule oracle",
        engine="vloop",
    ),
}

def main():
    checks = []
    for pid in ALL:
        if pid not in CHECKS:
            continue
        c = CHECKS[pid]
        checks.append({
            "property_id": pid,
            "quick_cmd": "/venv/bin/python run_check.py %s --tier quick" % pid,
            "thorough_cmd": "/venv/bin/python run_check.py %s --tier thorough" % pid,
            "evidence_file": "evidence/%s.json" % pid,
            "replay_cmd_template": "/venv/bin/python run_check.py %s --replay {path}" % pid,
            "engine": c.get("engine", ""),
            "level_claimed": {"category": c["category"], "text": c["text"], "design_ref": c["design_ref"]},
            "level_note": c["note"],
            "technique": c["technique"],
        })
    na = [{"property_id": p, "reason": "check not built yet (work in progress; see DESIGN.md section 10 build order)"}
          for p in ALL if p not in CHECKS]
    man = {
        "version": 1,
        "setup_cmd": "sh setup.sh",
        "hooks": {
            "guard": "GOODWE_VERIF",
            "enable": "no source hooks: the event loop, transports and simulated inverters are injected from outside "
                      "through asyncio's public extension points; checks import /repo/goodwe afresh in a new process",
            "baseline_off_cmd": "cd /repo && /venv/bin/python -m pytest -ra -q -p no:cacheprovider --timeout=900 --continue-on-collection-errors",
            "source_commits": [],
            "add_only": True,
        },
        "engines": [
            {"name": "refwire", "path": "vlib/refwire.py", "serves_properties": ["C01", "C02", "C03", "C07", "C08"],
             "kind_free_text": "independent reference codec for Modbus RTU / Modbus TCP / AA55 framings"},
            {"name": "vloop", "path": "vlib/vloop.py", "serves_properties": ["C01", "C02", "C03", "C04", "C05", "C06", "C07", "C08", "C09", "C10"],
             "kind_free_text": "virtual-clock asyncio event loop with in-memory UDP/TCP transports and a scripted peer"},
            {"name": "siminv", "path": "vlib/siminv.py", "serves_properties": ["C09", "C14", "C15", "C16", "C17", "C18", "C19", "C20"],
             "kind_free_text": "register-file simulated inverters (Modbus for ET/DT, AA55 for ES)"},
            {"name": "refsensor", "path": "vlib/refsensor.py", "serves_properties": ["C11", "C12", "C13", "C16", "C17"],
             "kind_free_text": "reference sensor decoder/encoder per sensor type"},
            {"name": "harness", "path": "vlib/harness.py", "serves_properties": ALL,
             "kind_free_text": "Hypothesis driver with search continuation, sharding, root-cause bucketing, evidence, replay"},
        ],
        "checks": checks,
        "not_applicable": na,
        "notes": "All checks: /venv/bin/python run_check.py <id> --tier quick|thorough; VERIF_SEED selects the seed. "
                 "known_findings.json lists genuine defects (known / fixed).",
    }
    with open(os.path.join(HERE, "MANIFEST.json"), "w") as f:
        json.dump(man, f, indent=1)
    print("MANIFEST.json: %d checks, %d not_applicable" % (len(checks), len(na)))

if __name__ == "__main__":
    main()
