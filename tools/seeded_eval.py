#!/usr/bin/env python3
"""Verify a change written by a sub-agent in its scratch worktree and file it under /verif/seeded/<id>/.

    seeded_eval.py <Cxx> [<worktree>] [--checks Cxx,Cyy] [--suffix b]

Steps (all confirmed here, not taken from the agent's word):
  1. the worktree's uncommitted diff of goodwe/ equals patch.diff and applies to /repo's HEAD
  2. the repository's tests pass with the change
  3. demo_break.py exits non-zero with the change and 0 without it (git apply -R / git apply in the worktree)
  4. the registered quick checks named (default: the property's own) are run against a scratch copy with the patch
Results go to seeded/<id>/meta.json (agent's meta + what was run here + which checks caught it).
"""
import json
import os
import shutil
import subprocess
import sys

VERIF = os.path.dirname(os.path.dirname(os.path.abspath(__file__)))
sys.path.insert(0, os.path.join(VERIF, "tools"))
import mutant_test  # noqa: E402


def sh(cmd, cwd=None, env=None, timeout=600):
    try:
        r = subprocess.run(cmd, shell=True, cwd=cwd, capture_output=True, text=True, env=env, timeout=timeout)
    except subprocess.TimeoutExpired:
        return 124, "TIMEOUT after %ds: %s" % (timeout, cmd)
    return r.returncode, (r.stdout + r.stderr)


def main():
    args = sys.argv[1:]
    pid = args[0].upper()
    wt = args[1] if len(args) > 1 and not args[1].startswith("--") else "/tmp/wt_c%s" % pid[1:]
    checks = [pid]
    suffix = ""
    if "--checks" in args:
        checks = args[args.index("--checks") + 1].split(",")
    if "--suffix" in args:
        suffix = args[args.index("--suffix") + 1]
    out = {"property": pid, "worktree": wt, "ran": []}
    rc, diff = sh("git -C %s diff -- goodwe" % wt)
    patch = open(os.path.join(wt, "patch.diff")).read()
    out["diff_matches_patch"] = diff.strip() == patch.strip()
    if not diff.strip():
        print("no uncommitted change in", wt)
        return 2
    rc, t = sh("/venv/bin/python -m pytest -q -p no:cacheprovider 2>&1 | tail -1", cwd=wt)
    out["repo_tests_with_change"] = t.strip()
    out["ran"].append("cd %s && /venv/bin/python -m pytest -q -p no:cacheprovider -> %s" % (wt, t.strip()))
    rc1, o1 = sh("/venv/bin/python demo_break.py", cwd=wt)
    out["demo_with_change_rc"] = rc1
    # NOT git stash: the stash is shared by all worktrees of one repository, concurrent agents would pop each other's changes
    tmp_own = "/var/tmp/seeded_own_%s.diff" % pid
    with open(tmp_own, "w") as f:
        f.write(diff)
    r_rc, r_out = sh("git -C %s apply -R %s" % (wt, tmp_own))
    if r_rc != 0:
        print("cannot revert the change in", wt, r_out)
        return 2
    try:
        rc0, o0 = sh("/venv/bin/python demo_break.py", cwd=wt)
    finally:
        sh("git -C %s apply %s" % (wt, tmp_own))
        os.remove(tmp_own)
    out["demo_without_change_rc"] = rc0
    out["ran"].append("demo_break.py with change -> exit %d (%s); without -> exit %d" % (rc1, o1.strip().splitlines()[-1][:160] if o1.strip() else "", rc0))
    tmp_patch = "/var/tmp/seeded_%s.diff" % pid
    with open(tmp_patch, "w") as f:
        f.write(diff)
    res = mutant_test.run_one(tmp_patch, checks, verbose=True)
    os.remove(tmp_patch)
    out["checks"] = res["checks"]
    out["repo_tests_on_scratch_copy"] = res.get("repo_tests_pass")
    out["caught_by"] = [c for c, v in res["checks"].items() if v["rc"] == 1]
    ok = "115 passed" in out["repo_tests_with_change"] and rc1 != 0 and rc0 == 0
    out["valid_seeded_change"] = ok
    dest = os.path.join(VERIF, "seeded", pid + suffix)
    if ok:
        os.makedirs(dest, exist_ok=True)
        with open(os.path.join(dest, "patch.diff"), "w") as f:
            f.write(diff)
        demo = open(os.path.join(wt, "demo_break.py")).read()
        for q in ('"', "'"):
            demo = demo.replace(q + wt + q, '__import__("os").environ.get("GOODWE_SRC", "/repo")')
        with open(os.path.join(dest, "demo_break.py"), "w") as f:
            f.write(demo)
        meta = {}
        try:
            meta = json.load(open(os.path.join(wt, "meta.json")))
        except Exception:
            pass
        meta["verified_by_verif"] = out
        meta["how_to_rerun"] = ("git -C /repo apply %s/patch.diff && GOODWE_SRC=/repo /venv/bin/python %s/demo_break.py; "
                                "/venv/bin/python run_check.py %s --tier quick; git -C /repo checkout -- ." % (
                                    os.path.relpath(dest, VERIF), os.path.relpath(dest, VERIF), " ".join(out["caught_by"] or checks)))
        with open(os.path.join(dest, "meta.json"), "w") as f:
            json.dump(meta, f, indent=1)
    print(json.dumps({k: out[k] for k in ("valid_seeded_change", "repo_tests_with_change", "demo_with_change_rc", "demo_without_change_rc", "caught_by")}, indent=None))
    return 0


if __name__ == "__main__":
    sys.exit(main())
