#!/bin/sh
# Evaluate a whole round of sub-agent changes:  sh tools/seeded_round.sh <round-number> <suffix> [Cxx ...]
# (worktrees /tmp/w<round>_cNN; one line per property: valid? caught by?)
cd "$(dirname "$0")/.."
R=$1; S=$2; shift 2
IDS=${*:-C01 C02 C03 C04 C05 C06 C07 C08 C09 C10 C11 C12 C13 C14 C15 C16 C17 C18 C19 C20}
for p in $IDS; do
  n=${p#C}
  if [ ! -f /tmp/w${R}_c$n/meta.json ]; then echo "$p not ready"; continue; fi
  printf "%s " "$p"
  timeout 1500 python3 tools/seeded_eval.py $p /tmp/w${R}_c$n --suffix $S 2>&1 | tail -1 | sed -e 's/"repo_tests_with_change": "[^"]*", //' | cut -c1-200
done
