#!/usr/bin/env python3
"""Render mutants/RESULTS.json (written by mutant_test.py --all) as mutants/README.md."""
import json, os
V = os.path.dirname(os.path.dirname(os.path.abspath(__file__)))
res = json.load(open(os.path.join(V, "mutants", "RESULTS.json")))
lines = ["# Sensitivity self-test results", "",
         "One row per (patch, check). `repo tests` = does the repository's own suite still pass with the patch applied "
         "(a mutant that fails it is caught by the suite already and only kept as a sanity check). `rc=1` = the check reported a "
         "VIOLATION (detected). Regenerate with `python3 tools/mutant_test.py --all && python3 tools/mutants_readme.py`.", "",
         "| patch | repo tests | check | detected | wall s | first bucket |", "|---|---|---|---|---|---|"]
det = tot = 0
for r in res:
    for c, v in r["checks"].items():
        tot += 1
        det += v["rc"] == 1
        b = (v["buckets"] or [""])[0].replace("|", "\\|")[:140]
        lines.append("| %s | %s | %s | %s | %s | %s |" % (os.path.basename(r["patch"]), "pass" if r.get("repo_tests_pass") else "FAIL", c,
                                                       "yes" if v["rc"] == 1 else "**NO** (rc=%d)" % v["rc"], v["wall"], b))
lines += ["", "%d of %d (patch, check) pairs detected." % (det, tot)]
open(os.path.join(V, "mutants", "README.md"), "w").write("\n".join(lines) + "\n")
print(lines[-1])
