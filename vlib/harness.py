"""E5 - shared plumbing: paths, fresh import of the library under test, case accounting, root-cause
bucketing against known_findings.json, Hypothesis driver with search continuation, process sharding,
evidence and replay files.
"""
from __future__ import annotations

import collections
import importlib
import json
import logging
import multiprocessing
import os
import sys
import time
import traceback
import zlib

VERIF = os.path.dirname(os.path.dirname(os.path.abspath(__file__)))
REPO = os.environ.get("VERIF_REPO", "/repo")  # override only used by the mutant self-test
DEPS = os.path.join(VERIF, ".deps")
NCPU = min(16, os.cpu_count() or 1)


def setup_paths() -> None:
    sys.dont_write_bytecode = True
    for p in (DEPS, REPO, VERIF):
        if p in sys.path:
            sys.path.remove(p)
    sys.path.insert(0, VERIF)
    sys.path.insert(0, REPO)
    if os.path.isdir(DEPS):
        sys.path.append(DEPS)


OPT = os.environ.get("VERIF_OPT") == "1"            # this process runs the library as `python -O` would (asserts stripped, __debug__ False)
OPT_PASS = os.environ.get("VERIF_OPT_PASS") == "1"  # ... as the secondary pass of a check: one job in three of every sharded engine
_OPT_INSTALLED = False


def _install_optimizing_loader():
    """Modules of the goodwe package are compiled with optimize=1 - exactly what `python -O` / PYTHONOPTIMIZE=1 does to them - while
    the harness, Hypothesis and the standard library run normally.  An environment dimension like debug logging: nothing the
    properties say may depend on it."""
    global _OPT_INSTALLED
    if _OPT_INSTALLED:
        return
    import importlib.abc
    import importlib.machinery
    import importlib.util

    class _OptLoader(importlib.machinery.SourceFileLoader):
        def get_code(self, fullname):
            path = self.get_filename(fullname)
            return compile(self.get_data(path), path, "exec", dont_inherit=True, optimize=1)

    class _OptFinder(importlib.abc.MetaPathFinder):
        def find_spec(self, fullname, path, target=None):
            if fullname != "goodwe" and not fullname.startswith("goodwe."):
                return None
            base = os.path.join(os.path.abspath(REPO), *fullname.split("."))
            if os.path.isdir(base):
                file = os.path.join(base, "__init__.py")
                return importlib.util.spec_from_file_location(fullname, file, loader=_OptLoader(fullname, file), submodule_search_locations=[base])
            file = base + ".py"
            if os.path.exists(file):
                return importlib.util.spec_from_file_location(fullname, file, loader=_OptLoader(fullname, file))
            return None

    sys.meta_path.insert(0, _OptFinder())
    _OPT_INSTALLED = True


def import_goodwe(fresh: bool = False):
    """Import goodwe from REPO (the current working tree). Library logging is silenced: it logs full
    tracebacks through logging's last-resort handler, which is noise and dominates run time."""
    logging.disable(logging.CRITICAL)
    if OPT:
        _install_optimizing_loader()
    if fresh:
        for name in [m for m in sys.modules if m == "goodwe" or m.startswith("goodwe.")]:
            del sys.modules[name]
    import goodwe  # noqa
    src = os.path.dirname(os.path.abspath(goodwe.__file__))
    if not src.startswith(os.path.abspath(REPO)):
        raise HarnessError("goodwe imported from %s, expected under %s" % (src, REPO))
    if not fresh:
        from . import tables
        if tables._PRISTINE is None:
            tables.snapshot_definitions()
    return goodwe


# ---------------------------------------------------------------------------------------------
# optional measurement: which lines of goodwe do the generated cases execute (tools/linecov.sh; never on in registered commands)
# ---------------------------------------------------------------------------------------------
_LINECOV = os.environ.get("VERIF_LINECOV")
_cov = set()


def _linecov_start():
    mon = sys.monitoring
    mon.use_tool_id(mon.COVERAGE_ID, "verif-linecov")
    prefix = os.path.join(os.path.abspath(REPO), "goodwe") + os.sep

    def line(code, lineno):
        fn = code.co_filename
        if fn.startswith(prefix):
            _cov.add((fn[len(prefix):], lineno))
        return mon.DISABLE

    mon.register_callback(mon.COVERAGE_ID, mon.events.LINE, line)
    mon.set_events(mon.COVERAGE_ID, mon.events.LINE)


def _linecov_dump():
    if _LINECOV:
        os.makedirs(_LINECOV, exist_ok=True)
        with open(os.path.join(_LINECOV, "%d.json" % os.getpid()), "w") as f:
            json.dump(sorted(_cov), f)


if _LINECOV:
    _linecov_start()


class HarnessError(Exception):
    """Problem in the verification machinery itself (exit code 2, never a VIOLATION)."""


# ---------------------------------------------------------------------------------------------
# known findings
# ---------------------------------------------------------------------------------------------
def load_known() -> dict:
    path = os.path.join(VERIF, "known_findings.json")
    if not os.path.exists(path):
        return {}
    with open(path) as f:
        doc = json.load(f)
    out = {}
    for e in doc.get("findings", []):
        if e.get("status") == "known":
            out[e["key"]] = e
    return out


KNOWN = load_known()


def h64(*parts) -> int:
    """Deterministic hash of a case description (PYTHONHASHSEED=0 is enforced by run_check.py)."""
    return hash(parts)


def jsonable(x):
    if isinstance(x, (bytes, bytearray)):
        return {"hex": bytes(x).hex()}
    if isinstance(x, dict):
        return {str(k): jsonable(v) for k, v in x.items()}
    if isinstance(x, (list, tuple)):
        return [jsonable(v) for v in x]
    if isinstance(x, (set, frozenset)):
        return sorted(jsonable(v) for v in x)
    if isinstance(x, (int, str, bool)) or x is None:
        return x
    if isinstance(x, float):
        return x if x == x and x not in (float("inf"), float("-inf")) else repr(x)
    return repr(x)


def unhex(x):
    """Inverse of jsonable for bytes values."""
    if isinstance(x, dict):
        if set(x) == {"hex"}:
            return bytes.fromhex(x["hex"])
        return {k: unhex(v) for k, v in x.items()}
    if isinstance(x, list):
        return [unhex(v) for v in x]
    return x


# ---------------------------------------------------------------------------------------------
# accumulator
# ---------------------------------------------------------------------------------------------
class Acc:
    """Statistics of explored cases; mergeable across worker processes."""

    SAMPLE_CAP = 10

    def __init__(self):
        self.evals = 0
        self.nt = set()
        self.nt_counted = 0
        self.classes = collections.Counter()
        self.samples = []
        self.viol = {}
        self.known = collections.Counter()
        self.known_msg = {}
        self.notes = []
        self.flags = {}

    # -- counting ---------------------------------------------------------------------------
    def case(self, n: int = 1):
        self.evals += n

    def nontrivial(self, *parts):
        self.nt.add(hash(parts))

    def nontrivial_counted(self, n: int = 1):
        """For enumerations whose cases are distinct by construction (disjoint loops)."""
        self.nt_counted += n

    def cls(self, name: str, n: int = 1):
        self.classes[name] += n

    def sample(self, s, cap: int | None = None):
        if len(self.samples) < (cap or self.SAMPLE_CAP):
            self.samples.append(jsonable(s))

    def note(self, s: str):
        if s not in self.notes:
            self.notes.append(s)

    # -- failures ---------------------------------------------------------------------------
    def fail(self, key: str, msg: str, case) -> bool:
        """Record an oracle failure under root-cause bucket `key`. Returns True when it is a NEW
        violation (not listed as known finding)."""
        if key in KNOWN:
            self.known[key] += 1
            self.known_msg.setdefault(key, msg)
            return False
        case_j = jsonable(case)
        if LOG_ON and isinstance(case_j, dict):
            case_j = dict(case_j, _debug_logging=True)      # part of the case: replay switches it on again
        if WARN_ERR and isinstance(case_j, dict):
            case_j = dict(case_j, _warnings_as_errors=True)
        if OPT and isinstance(case_j, dict):
            case_j = dict(case_j, _python_O=True)           # replay re-executes itself with the library compiled as under python -O
        size = len(json.dumps(case_j))
        old = self.viol.get(key)
        if old is None or size < old["size"]:
            self.viol[key] = {"msg": msg, "case": case_j, "size": size, "count": (old or {}).get("count", 0) + 1}
        else:
            old["count"] += 1
        return True

    # -- merge ------------------------------------------------------------------------------
    def export(self):
        return {
            "evals": self.evals, "nt": self.nt, "nt_counted": self.nt_counted, "classes": dict(self.classes),
            "samples": self.samples, "viol": self.viol, "known": dict(self.known), "known_msg": self.known_msg,
            "notes": self.notes, "flags": self.flags,
        }

    def merge(self, d):
        if isinstance(d, Acc):
            d = d.export()
        self.evals += d["evals"]
        self.nt |= d["nt"]
        self.nt_counted += d["nt_counted"]
        self.classes.update(d["classes"])
        for s in d["samples"]:
            if len(self.samples) < self.SAMPLE_CAP:
                self.samples.append(s)
        for k, v in d["viol"].items():
            old = self.viol.get(k)
            if old is None:
                self.viol[k] = dict(v)
            else:
                cnt = old["count"] + v["count"]
                if v["size"] < old["size"]:
                    self.viol[k] = dict(v)
                self.viol[k]["count"] = cnt
        self.known.update(d["known"])
        for k, v in d["known_msg"].items():
            self.known_msg.setdefault(k, v)
        for n in d["notes"]:
            self.note(n)
        self.flags.update(d["flags"])


# ---------------------------------------------------------------------------------------------
# context of one check run
# ---------------------------------------------------------------------------------------------
class Ctx:
    def __init__(self, prop: str, tier: str, seed: int):
        global CURRENT_PROP
        CURRENT_PROP = prop
        self.prop = prop
        self.tier = tier
        self.seed = seed
        self.quick = tier == "quick"
        self.acc = Acc()
        self.t0 = time.time()
        self.engines = []
        self.skipped = []
        self.exhaustive_parts = []
        self.extra = {}

    def pick(self, quick, thorough):
        return quick if self.quick else thorough

    def elapsed(self):
        return time.time() - self.t0

    # -- sharded execution ----------------------------------------------------------------------
    def shard(self, fn, jobs, label: str | None = None, procs: int | None = None):
        """Run fn(job) -> Acc-export (or Acc) for each job on a process pool and merge the results.
        fn must be a module-level function; jobs must be picklable."""
        jobs = list(jobs)
        if label:
            self.engines.append(label)
        if not jobs:
            return
        procs = min(procs or NCPU, len(jobs))
        jobs = list(enumerate(jobs))
        if OPT_PASS:
            jobs = [j for j in jobs if not job_logging(j[0]) and not job_warnings_as_errors(j[0])]
            if not jobs:
                return
        if procs <= 1:
            for j in jobs:
                self.acc.merge(_call(fn, j))
            return
        mpctx = multiprocessing.get_context("fork")
        with mpctx.Pool(procs) as pool:
            for res in pool.imap_unordered(_Caller(fn), jobs, chunksize=1):
                self.acc.merge(res)


class _Caller:
    def __init__(self, fn):
        self.fn = fn

    def __call__(self, job):
        return _call(self.fn, job)


CURRENT_PROP = None


def _library_origin(ex):
    """'file.py:function' of the library frame that raised `ex` (directly, or through the standard library it called), or None
    when the exception was raised by harness code (checks, vlib, simulator callbacks invoked by the library)."""
    tb = ex.__traceback__
    frames = []
    while tb is not None:
        frames.append(tb.tb_frame)
        tb = tb.tb_next
    lib = os.path.join(os.path.abspath(REPO), "goodwe") + os.sep
    for fr in reversed(frames):
        fname = os.path.abspath(fr.f_code.co_filename)
        if fname.startswith(lib):
            return "%s:%s" % (os.path.basename(fname), fr.f_code.co_name)
        if fname.startswith(VERIF + os.sep) or "hypothesis" in fname:
            return None
    return None


def replay_job(mod, case):
    """Replay of a case recorded by the fallback above: run the job again (same index, hence same environment dimension)."""
    fn = getattr(mod, case["_fn"])
    job = case["_job"]
    return _call(fn, (case.get("_index", 0), tuple(job) if isinstance(job, list) else job))


def _call(fn, indexed_job):
    index, job = indexed_job
    import warnings
    wctx = warnings.catch_warnings()
    wctx.__enter__()
    try:
        debug_logging(job_logging(index))
        if job_warnings_as_errors(index):
            # the application runs with warnings turned into errors (python -W error, pytest filterwarnings=error); restricted to
            # warnings attributed to the library's own modules so that harness / Hypothesis warnings never matter
            warnings_as_errors(True)
        # every job starts from the import-time state of the library's shared (class-level) definition objects: which worker
        # process gets which job depends on timing, and results must not
        if "goodwe" in sys.modules:
            from . import tables
            tables.restore_definitions()
        res = fn(job)
    except HarnessError:
        raise
    except Exception as ex:
        where = _library_origin(ex)
        if where is None:   # a crash of the harness code itself inside a worker
            raise HarnessError("worker crashed on job %r: %s\n%s" % (job, ex, traceback.format_exc()))
        # an exception RAISED INSIDE THE LIBRARY (not in the harness, not in a simulator callback) that the check did not expect from
        # the call it made: whatever the property, the case it was exploring did not get the documented outcome.  The case is the
        # job itself; the replay runs the job again.
        res = Acc()
        res.case()
        res.fail("%s|exception-escaped-from-library|%s|%s" % (CURRENT_PROP or "C??", type(ex).__name__, where),
                 "%r raised inside the library (%s) escaped from the call under test in %s%s" % (
                     ex, where, getattr(fn, "__name__", "job"), " with debug logging on" if job_logging(index) else ""),
                 {"_job": job, "_fn": getattr(fn, "__name__", None), "_index": index})
    except BaseException as ex:
        raise HarnessError("worker crashed on job %r: %s\n%s" % (job, ex, traceback.format_exc()))
    finally:
        debug_logging(False)
        warnings_as_errors(False)
        wctx.__exit__(None, None, None)
    _linecov_dump()
    if OPT and isinstance(res, Acc):
        res.cls("jobs-under-python-O")
    if job_logging(index) and isinstance(res, Acc):
        res.cls("jobs-with-debug-logging")
    if job_warnings_as_errors(index) and isinstance(res, Acc):
        res.cls("jobs-with-warnings-as-errors")
    return res.export() if isinstance(res, Acc) else res


# ---------------------------------------------------------------------------------------------
# Hypothesis driver with search continuation
# ---------------------------------------------------------------------------------------------
class _OracleFailure(AssertionError):
    pass


def hyp_search(acc: Acc, body, strategies, *, seed: int, max_examples: int, max_buckets: int = 4,
               shrink: bool = True, stateful_machine=None, step_count: int = 30):
    """Drive `body(*args) -> list[(key, msg, case)]` with Hypothesis.

    Known findings are counted and skipped (search continues as if the case passed).  A new failure
    makes the Hypothesis test fail for exactly that bucket key, Hypothesis shrinks it, the shrunk case is
    recorded, the key is excluded and the search is restarted (up to max_buckets root causes)."""
    import hypothesis
    from hypothesis import HealthCheck, Phase, given, settings

    excluded = set()
    phases = [Phase.explicit, Phase.generate, Phase.target]
    if shrink:
        phases.append(Phase.shrink)
    for rnd in range(max_buckets):
        state = {"target": None, "last": None}

        def run_body(args):
            fails = body(*args) or []
            hit = None
            for key, msg, case in fails:
                if key in KNOWN:
                    acc.fail(key, msg, case)
                    continue
                if key in excluded:
                    continue
                if state["target"] is None:
                    state["target"] = key
                if key == state["target"] and hit is None:
                    hit = (key, msg, case)
            if hit is not None:
                state["last"] = hit
                raise _OracleFailure(hit[0] + ": " + hit[1])

        st = settings(max_examples=max_examples, deadline=None, database=None, report_multiple_bugs=False,
                      derandomize=False, phases=phases, print_blob=False,
                      suppress_health_check=[HealthCheck.too_slow, HealthCheck.data_too_large,
                                             HealthCheck.filter_too_much, HealthCheck.large_base_example],
                      verbosity=hypothesis.Verbosity.quiet)
        from hypothesis import strategies as _st
        test = hypothesis.seed(seed + 7919 * rnd)(st(given(_st.tuples(*strategies))(run_body)))
        try:
            test()
        except _OracleFailure:
            key, msg, case = state["last"]
            acc.fail(key, msg, case)
            excluded.add(key)
            continue
        except hypothesis.errors.HypothesisException as ex:
            raise HarnessError("Hypothesis error: %r" % (ex,))
        break


# ---------------------------------------------------------------------------------------------
# finishing: evidence, replay files, exit code
# ---------------------------------------------------------------------------------------------
def slug(key: str) -> str:
    s = "".join(c if c.isalnum() else "_" for c in key)[:80]
    return "%s_%08x" % (s, zlib.crc32(key.encode()))


def finish(ctx: Ctx, *, level: str, rule: str, assumptions, exhaustive: bool | None = None) -> int:
    acc = ctx.acc
    _linecov_dump()
    wall = time.time() - ctx.t0
    out_lines = []
    replay_dir = os.path.join(os.environ.get("VERIF_REPLAY_DIR", os.path.join(VERIF, "replays", "_new")), ctx.prop)
    n_viol = 0
    for key in sorted(acc.known):
        e = KNOWN[key]
        print("KNOWN-FINDING: property=%s %s -- %s (%d cases excluded)" % (
            ctx.prop, key, e.get("what", ""), acc.known[key]))
    for key in sorted(acc.viol):
        v = acc.viol[key]
        os.makedirs(replay_dir, exist_ok=True)
        path = os.path.join(replay_dir, slug(key) + ".json")
        with open(path, "w") as f:
            json.dump({"property": ctx.prop, "key": key, "message": v["msg"], "case": v["case"]}, f, indent=1)
        n_viol += 1
        print("VIOLATION property=%s replay=%s" % (ctx.prop, path))
        print("  bucket=%s count=%d :: %s" % (key, v["count"], v["msg"][:600]))
    coverage = {
        "evaluations": acc.evals,
        "distinct_nontrivial": len(acc.nt) + acc.nt_counted,
        "rule": rule,
        "samples": acc.samples[:Acc.SAMPLE_CAP],
        "classes": dict(sorted(acc.classes.items())),
        "excluded_known": dict(acc.known),
        "engines": ctx.engines,
        "skipped": ctx.skipped,
        "notes": acc.notes,
    }
    if ctx.exhaustive_parts:
        coverage["exhaustive_parts"] = ctx.exhaustive_parts
    if exhaustive is not None:
        coverage["exhaustive"] = exhaustive
    coverage.update(ctx.extra)
    ev = {
        "property_id": ctx.prop, "tier": ctx.tier, "seed": ctx.seed, "level": level,
        "coverage": coverage, "assumptions": list(assumptions) + [
            "environment dimension: one job in three of every sharded engine runs with the 'goodwe' logger at DEBUG and a handler that "
            "formats every record (class jobs-with-debug-logging); a violation found there carries _debug_logging in its replay case; "
            "another third runs with warnings attributed to the library's modules turned into errors (python -W error; class jobs-with-warnings-as-errors); "
            "the remaining third is run a second time in a child process in which the modules of the goodwe package are compiled with optimize=1, "
            "as under python -O (class jobs-under-python-O; replay cases carry _python_O)"],
        "wall_s": round(wall, 2),
        "violations": n_viol,
    }
    evdir = os.environ.get("VERIF_EVIDENCE_DIR", os.path.join(VERIF, "evidence"))  # override: mutant self-test only
    os.makedirs(evdir, exist_ok=True)
    with open(os.path.join(evdir, ctx.prop + ".json"), "w") as f:
        json.dump(ev, f, indent=1, sort_keys=False)
    print("%s %s seed=%d: %d evaluations, %d distinct non-trivial, %d known-finding buckets, %d violations, %.1fs" % (
        ctx.prop, ctx.tier, ctx.seed, acc.evals, coverage["distinct_nontrivial"], len(acc.known), n_viol, wall))
    return 1 if n_viol else 0


def debug_logging(on: bool):
    """The application has switched the library's logger to DEBUG and attached a handler that formats every record (what
    Home Assistant's debug logging or logging.basicConfig(level=DEBUG) does); formatted text goes nowhere.  Logging is an
    environment dimension of the cases: no property allows results to depend on it."""
    import logging
    global LOG_ON
    previous = LOG_ON
    LOG_ON = bool(on)
    lg = logging.getLogger("goodwe")
    sink = getattr(debug_logging, "_sink", None)
    if sink is None:
        class Sink(logging.Handler):
            def emit(self, record):
                self.format(record)
        sink = debug_logging._sink = Sink()
        sink.setFormatter(logging.Formatter("%(asctime)s %(name)s %(levelname)s %(message)s"))
    if on:
        if sink not in lg.handlers:
            lg.addHandler(sink)
        lg.setLevel(logging.DEBUG)
        lg.propagate = False
        logging.disable(logging.NOTSET)      # (use_repo() silences the library for all other cases)
    else:
        if sink in lg.handlers:
            lg.removeHandler(sink)
        lg.setLevel(logging.NOTSET)
        lg.propagate = True
        logging.disable(logging.CRITICAL)
    return previous


LOG_ON = False


def job_logging(index: int) -> bool:
    """One job in three of every sharded engine runs with the application's debug logging switched on (deterministic in the job's
    position, scrambled so that it does not line up with the order of the configurations)."""
    return ((index + 1) * 2654435761 >> 9) % 3 == 0


WARN_ERR = False


def warnings_as_errors(on: bool):
    """Call inside a warnings.catch_warnings() block: the filter list is restored by that block."""
    import warnings
    global WARN_ERR
    WARN_ERR = bool(on)
    if on:
        warnings.filterwarnings("error", module=r"goodwe(\.|$)")


def job_warnings_as_errors(index: int) -> bool:
    """Another third of the jobs runs with warnings attributed to the library turned into errors (python -W error)."""
    return ((index + 1) * 2654435761 >> 9) % 3 == 1
    # (the remaining third runs in the plain environment - and once more in the secondary pass with the library compiled as under
    #  `python -O`, see _install_optimizing_loader)


_SYNC_LOOP = {}


def run_sync(coro):
    """Drive a coroutine that never really suspends (direct simulator path).  The library may legitimately use asyncio
    facilities that need a running loop without suspending (get_running_loop(), create_future(), call_soon()): a real, never
    started loop object is installed as the running loop for the duration of the call."""
    import asyncio
    loop = _SYNC_LOOP.get(os.getpid())
    if loop is None:
        loop = _SYNC_LOOP[os.getpid()] = asyncio.new_event_loop()
    nested = asyncio._get_running_loop() is not None
    if not nested:
        asyncio._set_running_loop(loop)
    try:
        try:
            fut = coro.send(None)
        except StopIteration as st:
            return st.value
        if nested:
            coro.close()
            raise HarnessError("coroutine suspended on the direct path (inside a running loop)")
        # The library suspended although the simulated transport answers synchronously (e.g. it wrapped the request in a task):
        # legitimate - drive the coroutine by hand, letting the loop run whenever it waits for something.
        for _ in range(10000):
            asyncio._set_running_loop(None)
            try:
                if fut is not None and hasattr(fut, "_asyncio_future_blocking"):
                    fut._asyncio_future_blocking = False
                    loop.run_until_complete(asyncio.wait_for(_swallow(fut), timeout=5))
                else:
                    loop.run_until_complete(asyncio.sleep(0))
            except asyncio.TimeoutError:
                coro.close()
                raise HarnessError("coroutine suspended on the direct path and what it waits for never completes")
            asyncio._set_running_loop(loop)
            try:
                fut = coro.send(None)
            except StopIteration as st:
                return st.value
        coro.close()
        raise HarnessError("coroutine keeps suspending on the direct path")
    finally:
        if not nested:
            asyncio._set_running_loop(None)


async def _swallow(fut):
    import asyncio
    try:
        await asyncio.shield(fut)
    except BaseException:
        pass


# ---------------------------------------------------------------------------------------------
# stateful (rule-based) machines with the same search continuation
# ---------------------------------------------------------------------------------------------
def machine_search(acc: Acc, machine_cls, *, seed: int, max_examples: int, step_count: int = 12,
                   max_buckets: int = 4):
    """Run a hypothesis.stateful.RuleBasedStateMachine subclass.  The machine reports oracle failures through
    self.report([(key, msg, case), ...]) (see ReportingMixin); known findings are counted and skipped, a new
    bucket fails the run, is shrunk by Hypothesis, recorded, excluded, and the search restarts."""
    import hypothesis
    from hypothesis import HealthCheck, settings
    from hypothesis.stateful import run_state_machine_as_test

    excluded = set()
    for rnd in range(max_buckets):
        state = {"target": None, "last": None}

        def report(fails, _state=state):
            hit = None
            for key, msg, case in fails or []:
                if key in KNOWN:
                    acc.fail(key, msg, case)
                    continue
                if key in excluded:
                    continue
                if _state["target"] is None:
                    _state["target"] = key
                if key == _state["target"] and hit is None:
                    hit = (key, msg, case)
            if hit is not None:
                _state["last"] = hit
                raise _OracleFailure(hit[0] + ": " + hit[1])

        cls = type(machine_cls.__name__ + "_r%d" % rnd, (machine_cls,), {"_report_fn": staticmethod(report), "_acc": acc})
        st = settings(max_examples=max_examples, stateful_step_count=step_count, deadline=None, database=None,
                      report_multiple_bugs=False, derandomize=False, print_blob=False,
                      suppress_health_check=list(HealthCheck), verbosity=hypothesis.Verbosity.quiet)
        try:
            run_state_machine_as_test(hypothesis.seed(seed + 7919 * rnd)(cls), settings=st)
        except _OracleFailure:
            key, msg, case = state["last"]
            acc.fail(key, msg, case)
            excluded.add(key)
            continue
        except hypothesis.errors.HypothesisException as ex:
            raise HarnessError("Hypothesis error in state machine: %r" % (ex,))
        break


class ReportingMixin:
    """Mixin for RuleBasedStateMachine subclasses used with machine_search."""
    _report_fn = None
    _acc = None

    def report(self, fails):
        type(self)._report_fn(fails)
