"""E4 - reference semantics of the sensor types (decoder, bytes consumed, inverse encoder where one exists).

Written from the class docstrings ("voltage [V] value encoded in 2 (unsigned) bytes"), the scales named by property
C12 (0.1 V, 0.1 A, 0.01 Hz, 0.1 C, 0.1 kWh) and the sentinel behaviour pinned by tests/test_sensor.py.
Arithmetic is explicit (shifts, two's complement, Fractions); no int.from_bytes, no struct for integers.
"""
from __future__ import annotations

import math
import struct
from datetime import datetime
from fractions import Fraction


def _u(b: bytes) -> int:
    v = 0
    for x in b:
        v = (v << 8) | x
    return v


def _s(b: bytes) -> int:
    v = _u(b)
    bits = 8 * len(b)
    if bits and v & (1 << (bits - 1)):
        v -= 1 << bits
    return v


def _scaled(v: int, scale: int) -> float:
    return float(Fraction(v, scale))  # correctly rounded, same as IEEE float(v)/scale


class Undecodable(Exception):
    """The reference says: these bytes have no interpretation (the library must report None / ValueError)."""


# name -> (bytes consumed, decoder(bytes, sensor) -> value)
def _voltage(b, s):
    v = _u(b)
    return 0 if v == 0xFFFF else _scaled(v, 10)


def _current_s(b, s):
    return _scaled(_s(b), 10)


def _freq(b, s):
    return _scaled(_s(b), 100)


def _u2_none(b, s):
    v = _u(b)
    return None if v == 0xFFFF else v


def _u4_none(b, s):
    v = _u(b)
    return None if v == 0xFFFFFFFF else v


def _energy(scale, allones):
    def f(b, s):
        v = _u(b)
        return None if v == allones else _scaled(v, scale)
    return f


def _temp(b, s):
    v = _s(b)
    if v == -1 or v == 32767:
        return None
    return _scaled(v, 10)


def _cell_voltage(b, s):
    v = _u(b)
    return 0.0 if v == 0xFFFF else float(Fraction(v, 10)) / 100  # documented as voltage / 100


def _byte_hi(b, s):
    return _s(b[0:1])


def _byte_lo(b, s):
    return _s(b[1:2])


def _u2_zero(b, s):
    v = _u(b)
    return 0 if v == 0xFFFF else v


def _u4_zero(b, s):
    v = _u(b)
    return 0 if v == 0xFFFFFFFF else v


def _decimal(b, s):
    return _scaled(_s(b), s.scale)


def _float(b, s):
    v = struct.unpack(">f", b)[0]
    return round(v / s.scale, 3)


def _timestamp(b, s):
    try:
        return datetime(2000 + b[0], b[1], b[2], b[3], b[4], b[5])
    except ValueError:
        raise Undecodable("impossible date")


def _enum(width, sel):
    def f(b, s):
        if width == 1:
            key = _s(b[sel:sel + 1])
        else:
            key = _u(b)
            key = 0 if key == 0xFFFF else key
        return s._labels.get(key)
    return f


def _bitmap4(b, s):
    """Names of exactly the set bits of the 32-bit word (all-ones = 'no value' = no bits); unknown bits are 'err<i>',
    bits whose table entry is the empty string are not listed."""
    v = _u(b)
    if v == 0xFFFFFFFF:
        v = 0
    out = []
    for i in range(32):
        if (v >> i) & 1:
            name = s._labels.get(i, "err%d" % i)
            if name:
                out.append(name)
    return ", ".join(out)


TYPES = {
    "EnumBitmap4": (4, _bitmap4),
    "Voltage": (2, _voltage),
    "Current": (2, _voltage),
    "CurrentS": (2, _current_s),
    "Frequency": (2, _freq),
    "Power": (2, _u2_none),
    "PowerS": (2, lambda b, s: _s(b)),
    "Power4": (4, _u4_none),
    "Power4S": (4, lambda b, s: _s(b)),
    "Energy": (2, _energy(10, 0xFFFF)),
    "Energy4": (4, _energy(10, 0xFFFFFFFF)),
    "Energy4W": (4, _energy(1000, 0xFFFFFFFF)),
    "Energy8": (8, _energy(100, 0xFFFFFFFFFFFFFFFF)),
    "Apparent": (2, lambda b, s: _s(b)),
    "Apparent4": (4, lambda b, s: _s(b)),
    "Reactive": (2, lambda b, s: _s(b)),
    "Reactive4": (4, lambda b, s: _s(b)),
    "Temp": (2, _temp),
    "CellVoltage": (2, _cell_voltage),
    "Byte": (1, _byte_hi),
    "ByteH": (1, _byte_hi),
    "ByteL": (2, _byte_lo),
    "Integer": (2, _u2_zero),
    "IntegerS": (2, lambda b, s: _s(b)),
    "Long": (4, _u4_zero),
    "LongS": (4, lambda b, s: _s(b)),
    "Decimal": (2, _decimal),
    "Float": (4, _float),
    "Timestamp": (6, _timestamp),
    "Enum": (1, _enum(1, 0)),
    "EnumH": (1, _enum(1, 0)),
    "EnumL": (2, _enum(1, 1)),
    "Enum2": (2, _enum(2, 0)),
}
# kinds handled by other checks (computed / group values)
COMPUTED = ("Calculated", "EnumCalculated", "EnumBitmap4", "EnumBitmap22")
GROUPS = ("EcoModeV1", "EcoModeV2", "Schedule", "PeakShavingMode")


def type_name(sensor) -> str:
    """Name of the sensor kind.  A subclass the reference does not know (e.g. one introduced by a change to the library) is
    judged as the nearest ancestor it does know: a `class BatteryByte(Byte)` listed in a table still claims to be a Byte."""
    for klass in type(sensor).__mro__:
        n = klass.__name__
        if n in TYPES or n in COMPUTED or n in GROUPS:
            return n
    return type(sensor).__name__


def width(sensor) -> int | None:
    t = TYPES.get(type_name(sensor))
    return t[0] if t else None


def decode(sensor, own: bytes):
    """Reference value of `sensor` for the bytes at its own position (len(own) == width(sensor))."""
    n, fn = TYPES[type_name(sensor)]
    assert len(own) == n
    return fn(own, sensor)


def same(a, b) -> bool:
    """Equality with None distinguished from 0, NaN == NaN, and a stated float tolerance (rel/abs 1e-12) so that an
    equivalent re-association of the scaling arithmetic is not reported."""
    if a is None or b is None:
        return a is None and b is None
    if isinstance(a, float) or isinstance(b, float):
        try:
            fa, fb = float(a), float(b)
        except (TypeError, ValueError):
            return False
        if math.isnan(fa) or math.isnan(fb):
            return math.isnan(fa) and math.isnan(fb)
        return fa == fb or math.isclose(fa, fb, rel_tol=1e-12, abs_tol=1e-12)
    return a == b


# ---------------------------------------------------------------------------------------------
# reference encoders (C17): value -> register bytes
# ---------------------------------------------------------------------------------------------
def encode(sensor, value, prior: bytes | None = None) -> bytes:
    name = type_name(sensor)
    if name in ("Voltage", "Current"):
        k = Fraction(str(value)) * 10 if not isinstance(value, Fraction) else value * 10
        assert k.denominator == 1
        return _be(int(k), 2, False)
    if name == "CurrentS":
        k = Fraction(str(value)) * 10 if not isinstance(value, Fraction) else value * 10
        assert k.denominator == 1
        return _be(int(k), 2, True)
    if name == "Decimal":
        k = (Fraction(str(value)) if not isinstance(value, Fraction) else value) * sensor.scale
        assert k.denominator == 1
        return _be(int(k), 2, True)
    if name == "Integer":
        return _be(int(value), 2, False)
    if name == "IntegerS":
        return _be(int(value), 2, True)
    if name == "Long":
        return _be(int(value), 4, False)
    if name == "LongS":
        return _be(int(value), 4, True)
    if name == "ByteH":
        return _be(int(value), 1, True) + prior[1:2]
    if name == "ByteL":
        return prior[0:1] + _be(int(value), 1, True)
    if name == "Timestamp":
        return bytes((value.year - 2000, value.month, value.day, value.hour, value.minute, value.second))
    raise KeyError(name)


def _be(v: int, n: int, signed: bool) -> bytes:
    if signed and v < 0:
        v += 1 << (8 * n)
    assert 0 <= v < (1 << (8 * n)), (v, n)
    return bytes((v >> (8 * (n - 1 - i))) & 0xFF for i in range(n))


# ---------------------------------------------------------------------------------------------
# group values (eco mode / schedule): reference decode of the raw fields
# ---------------------------------------------------------------------------------------------
def eco_v1_fields(b: bytes):
    """(start_h, start_m, end_h, end_m, power, on_off, day_bits) of an 8 byte eco-mode V1 group; Undecodable if out of range."""
    sh, sm, eh, em = _s(b[0:1]), _s(b[1:2]), _s(b[2:3]), _s(b[3:4])
    power = _s(b[4:6])
    on_off = _s(b[6:7])
    days = _s(b[7:8])
    if not ((0 <= sh <= 23) or sh == 48) or not (0 <= sm <= 59) or not ((0 <= eh <= 23) or eh == 48) or not (0 <= em <= 59):
        raise Undecodable("time")
    if not -100 <= power <= 100:
        raise Undecodable("power")
    if on_off not in (0, -1):
        raise Undecodable("on_off")
    if days < 0 and days != -1:
        raise Undecodable("day bits")  # a day bitmap has 7 bits
    return {"start_h": sh, "start_m": sm, "end_h": eh, "end_m": em, "power": power, "on_off": on_off, "day_bits": days}


SCHEDULE_TYPES = {0: 0, -1: 0, 1: 1, -2: 1, 2: 2, -3: 2, 3: 3, -4: 3, 4: 4, -5: 4, 5: 5, -6: 5, 6: 6, -7: 6, 85: 85}


def schedule_fields(b: bytes):
    """Fields of a 12 byte schedule group (eco mode V2 / peak shaving)."""
    sh, sm, eh, em = _s(b[0:1]), _s(b[1:2]), _s(b[2:3]), _s(b[3:4])
    on_off, days = _s(b[4:5]), _s(b[5:6])
    power, soc, months = _s(b[6:8]), _s(b[8:10]), _s(b[10:12])

    def t_ok(h, hour):
        return (0 <= h <= (23 if hour else 59)) or (hour and h == 48) or h == -1
    if not (t_ok(sh, True) and t_ok(sm, False) and t_ok(eh, True) and t_ok(em, False)):
        raise Undecodable("time")
    if on_off not in SCHEDULE_TYPES:
        raise Undecodable("on_off")
    stype = SCHEDULE_TYPES[on_off]
    if days < 0 and days != -1:
        raise Undecodable("day bits")
    if stype == 0 and not -100 <= power <= 100:
        raise Undecodable("power")
    if stype == 6 and not -1000 <= power <= 1000:
        raise Undecodable("power")
    if not 0 <= soc <= 100:
        raise Undecodable("soc")
    if months > 0x0FFF:
        raise Undecodable("month bits")  # a month bitmap has 12 bits
    return {"start_h": sh, "start_m": sm, "end_h": eh, "end_m": em, "on_off": on_off, "day_bits": days, "power": power,
            "soc": soc, "month_bits": months, "schedule_type": stype}


def schedule_power(stype: int, raw: int) -> int:
    """Human readable power of a schedule group."""
    if stype == 3:
        return raw * 10
    if stype == 6:
        return int(raw / 10)
    if stype == 85:
        return raw if -100 <= raw <= 100 else int(raw / 10)
    return raw
