"""Shared construction of end-to-end protocol cases on the virtual loop (used by C01..C10).

A *case* is a plain JSON-able dict:
  transport: "udp" (Modbus RTU over UDP) | "aa55" (AA55 over UDP) | "tcp" (Modbus/TCP)
  keep: keep-alive flag, T: timeout (s), R: retries
  script: list of actions, delays in ticks of T/16   e.g. ["answer", 4] = valid answer after T/4
  connect: list of TCP connect outcomes per attempt (default "ok"), latency: loop iterations per connect
"""
from __future__ import annotations

from . import refwire as rw
from .vloop import (Aa55Responder, RtuResponder, ScriptedPeer, TcpResponder, VLoop, World)

TICKS = 16
FRAMING = {"udp": "rtu", "aa55": "aa55", "tcp": "tcp"}


def secs(ticks, T):
    return ticks * T / TICKS


def to_actions(script, T):
    """Convert tick-based JSON actions to the tuples ScriptedPeer executes."""
    out = []
    for a in script:
        k = a[0]
        if k == "combo":
            out.append(("combo", to_actions(a[1], T)))
            continue
        if k in ("drop",):
            out.append(("drop",))
        elif k in ("answer", "garbage", "short", "bad", "eof"):
            out.append((k, secs(a[1], T)))
        elif k == "raw":
            out.append(("raw", secs(a[1], T), a[2] if isinstance(a[2], bytes) else bytes.fromhex(a[2])))
        elif k == "multi":
            out.append(("multi", [(secs(d, T), b if isinstance(b, bytes) else bytes.fromhex(b)) for d, b in a[1]]))
        elif k == "pieces":
            out.append(("pieces", [(p[0], p[1], secs(p[2], T)) if p[0] in ("head", "tail") else (p[0], secs(p[1], T)) for p in a[1]]))
        elif k == "exc":
            out.append(("exc", secs(a[1], T), a[2]))
        elif k in ("frag", "frag_then_full"):
            out.append((k, a[1], secs(a[2], T), secs(a[3], T)))
        elif k == "lone":
            out.append(("lone", a[1], secs(a[2], T)))
        elif k == "dup":
            out.append(("dup", secs(a[1], T), secs(a[2], T)))
        elif k in ("reset", "recverr"):
            out.append((k, secs(a[1], T), a[2]))
        elif k == "senderr":
            out.append(("senderr", a[1]))
        else:
            raise ValueError("unknown action %r" % (a,))
    return out


def make_responder(transport, payload_fn=None):
    if transport == "udp":
        return RtuResponder(payload_fn)
    if transport == "tcp":
        return TcpResponder(payload_fn)
    return Aa55Responder(payload_fn)     # "aa55" (UDP) and "aa55tcp" (ES family object created with port 502)


def make_protocol(transport, T, R, keep, comm_addr=0xF7, host="192.0.2.1"):
    from goodwe.protocol import TcpInverterProtocol, UdpInverterProtocol
    if transport in ("tcp", "aa55tcp"):
        p = TcpInverterProtocol(host, 502, comm_addr, T, R)
    else:
        p = UdpInverterProtocol(host, 8899, comm_addr, T, R)
    p.keep_alive = keep
    return p


HOSTS = ("192.0.2.1", "inverter.local", "goodwe-inverter", "192.0.2.001", "3221225985")   # all resolve to 192.0.2.1 (vloop.DEFAULT_RESOLVE)


def make_endpoint(transport, T, R, keep, api=False, host="192.0.2.1"):
    """(protocol object, execute(command) -> coroutine).  api=True routes the request through an inverter object
    (Inverter._read_from_socket, the funnel of every public call) instead of ProtocolCommand.execute on a bare protocol."""
    if api:
        from vlib import siminv
        inv = siminv.make_inverter("ES" if transport in ("aa55", "aa55tcp") else "ET", transport in ("tcp", "aa55tcp"), T, R, host=host)
        inv._protocol.keep_alive = keep
        return inv._protocol, inv._read_from_socket
    protocol = make_protocol(transport, T, R, keep, host=host)
    return protocol, (lambda cmd: cmd.execute(protocol))


def make_command(transport, protocol, spec=None):
    """spec: ("read", reg, count) | ("write", reg, value) | ("write_multi", reg, bytes) |
             ("aa55", payload_hex, response_type_hex)"""
    from goodwe.protocol import Aa55ProtocolCommand
    if spec is None:
        spec = ("aa55", "010600", "0186") if transport in ("aa55", "aa55tcp") else ("read", 35100, 3)
    if spec[0] == "aa55":
        return Aa55ProtocolCommand(spec[1], spec[2])
    if spec[0] == "aa55read":       # the library's own AA55 register read command class (ES family settings registers)
        from goodwe.protocol import Aa55ReadCommand
        return Aa55ReadCommand(spec[1], spec[2])
    if spec[0] == "read":
        return protocol.read_command(spec[1], spec[2])
    if spec[0] == "write":
        return protocol.write_command(spec[1], spec[2])
    return protocol.write_multi_command(spec[1], spec[2])


class Obs:
    """Observation of one request."""
    __slots__ = ("outcome", "world", "loop", "tx", "t0", "t_end", "connects", "deliveries", "errors")


def run_single(case, *, payload_fn=None, command=None, idle=True):
    """One request through ProtocolCommand.execute on a fresh protocol object and loop."""
    T, R = case["T"], case["R"]
    transport = case["transport"]
    responder = make_responder(transport, payload_fn)
    peer = ScriptedPeer(responder, to_actions(case.get("script", []), T), default=("drop",))
    world = World(peer, connect_latency=case.get("latency", 0), connect_script=case.get("connect"))
    loop = VLoop(world, max_time=1e5)
    protocol, execute = make_endpoint(transport, T, R, case.get("keep", False), case.get("api", False), case.get("host", "192.0.2.1"))
    cmd = make_command(transport, protocol, command)
    out = loop.run(execute(cmd))
    obs = Obs()
    obs.outcome = out
    obs.t0 = out.t_start
    obs.t_end = out.t_end
    obs.tx = [tuple(e) for e in world.tx]
    obs.connects = list(world.connect_attempts)
    if idle:
        loop.idle()
    obs.deliveries = list(world.deliveries)
    obs.errors = list(loop.errors)
    obs.world = world
    obs.loop = loop
    loop.shutdown()
    return obs


def same_request(transport, a: bytes, b: bytes) -> bool:
    """Transmissions of one request must be identical (Modbus/TCP: apart from the transaction id)."""
    if transport == "tcp":
        return a[2:] == b[2:]
    return a == b      # AA55 frames carry no transaction id, whatever transport they travel on


# ---------------------------------------------------------------------------------------------
# histories: several requests / close() / loop changes on ONE protocol object
# ---------------------------------------------------------------------------------------------
class ReqObs:
    __slots__ = ("step", "kind", "exc", "result", "hang", "t0", "t_end", "tx", "connects", "open_after", "tids")

    def times(self):
        return [t - self.t0 for t, *_ in self.tx]


def run_sequence(case, *, payload_fn=None, target=None):
    """Execute case["steps"] on one protocol object.  Steps:
         {"op": "request", "script": [...], "connect": [...], "command": spec}
         {"op": "close"} | {"op": "idle"} | {"op": "sleep", "ticks": n} | {"op": "newloop"}
       Returns (list[ReqObs] for the request steps, world, list of loop-error contexts)."""
    import asyncio
    T, R = case["T"], case["R"]
    transport = case["transport"]
    responder = make_responder(transport, payload_fn)
    peer = ScriptedPeer(responder, [], default=("drop",))
    world = World(peer, connect_latency=case.get("latency", 0))
    protocol, execute = make_endpoint(transport, T, R, case.get("keep", False), case.get("api", False), case.get("host", "192.0.2.1"))
    results = []
    errors = []
    steps = list(case["steps"])
    pos = 0
    now = 0.0
    while pos < len(steps):
        loop = VLoop(world, start=now, max_time=now + 1e5)
        state = {"pos": pos}

        async def segment():
            while state["pos"] < len(steps):
                st = steps[state["pos"]]
                op = st["op"]
                if op == "newloop":
                    state["pos"] += 1
                    return
                state["pos"] += 1
                if op == "request":
                    peer.set_script(to_actions(st.get("script", []), T), default=tuple(st.get("default", ("drop",))))
                    world.connect_script = list(st.get("connect", []))
                    ro = ReqObs()
                    ro.step = state["pos"] - 1
                    i0, c0 = len(world.tx), len(world.connect_attempts)
                    ro.t0 = loop.vtime
                    ro.exc = ro.result = ro.hang = None
                    cmd = make_command(transport, protocol, st.get("command"))
                    try:
                        ro.result = await execute(cmd)
                        ro.kind = "ok"
                    except asyncio.CancelledError as ex:
                        ro.exc, ro.kind = ex, "CancelledError"
                    except Exception as ex:
                        ro.exc, ro.kind = ex, type(ex).__name__
                    ro.t_end = loop.vtime
                    ro.tx = [tuple(e) for e in world.tx[i0:]]
                    ro.connects = list(world.connect_attempts[c0:])
                    ro.open_after = set(world.open)
                    results.append(ro)
                elif op == "close":
                    ro = ReqObs()
                    ro.step = state["pos"] - 1
                    ro.t0 = loop.vtime
                    ro.exc = ro.result = ro.hang = None
                    ro.kind = "closed"
                    try:
                        await protocol.close()
                    except Exception as ex:
                        ro.exc, ro.kind = ex, "close-raised:" + type(ex).__name__
                    ro.t_end = loop.vtime
                    ro.tx, ro.connects = [], []
                    ro.open_after = set(world.open)
                    results.append(ro)
                elif op == "sleep":
                    await asyncio.sleep(secs(st["ticks"], T))
                elif op == "idle":
                    while True:
                        pending = [h for h in loop._scheduled if not h._cancelled]
                        if not pending and not loop._ready:
                            break
                        if loop._ready:
                            await asyncio.sleep(0)
                        else:
                            await asyncio.sleep(max(0.0, min(h._when for h in pending) - loop.vtime))
                else:
                    raise ValueError(op)

        out = loop.run(segment())
        if out.hang is not None or out.exc is not None:
            ro = ReqObs()
            ro.step = state["pos"] - 1
            ro.kind = "hang" if out.hang is not None else "harness:" + type(out.exc).__name__
            ro.hang, ro.exc, ro.result = out.hang, out.exc, None
            ro.t0 = ro.t_end = loop.vtime
            ro.tx, ro.connects, ro.open_after = [], [], set(world.open)
            results.append(ro)
            errors.extend(loop.errors)
            loop.shutdown()
            break
        pos = state["pos"]
        if pos >= len(steps):
            loop.idle()
        errors.extend(loop.errors)
        now = loop.vtime
        loop.shutdown()
    return results, world, errors, protocol


# ---------------------------------------------------------------------------------------------
# incremental session (used by the stateful machines)
# ---------------------------------------------------------------------------------------------
class Session:
    """One protocol object, one peer/world, a current virtual loop; steps are executed one at a time."""

    def __init__(self, transport, T, R, keep, latency=0, payload_fn=None, api=False, host="192.0.2.1"):
        self.transport, self.T, self.R, self.keep, self.api = transport, T, R, keep, api
        self.responder = make_responder(transport, payload_fn)
        self.peer = ScriptedPeer(self.responder, [], default=("drop",))
        self.world = World(self.peer, connect_latency=latency)
        self.protocol, self.execute = make_endpoint(transport, T, R, keep, api, host)
        self.loop = VLoop(self.world, max_time=1e5)
        self.errors = []
        self.steps = []
        self.broken = None

    def _run(self, coro):
        out = self.loop.run(coro)
        if out.hang is not None:
            self.broken = out.hang
        return out

    def request(self, script, connect=(), command=None, default=("drop",)):
        import asyncio
        self.steps.append({"op": "request", "script": script, "connect": list(connect), "default": list(default)})
        self.peer.set_script(to_actions(script, self.T), default=tuple(default))
        self.world.connect_script = list(connect)
        ro = ReqObs()
        ro.step = len(self.steps) - 1
        i0, c0 = len(self.world.tx), len(self.world.connect_attempts)
        ro.t0 = self.loop.vtime
        cmd = make_command(self.transport, self.protocol, command)
        out = self._run(self.execute(cmd))
        ro.exc, ro.result, ro.hang = out.exc, out.result, out.hang
        ro.kind = out.kind()
        ro.t_end = self.loop.vtime
        ro.tx = [tuple(e) for e in self.world.tx[i0:]]
        ro.connects = list(self.world.connect_attempts[c0:])
        ro.open_after = set(self.world.open)
        return ro

    def request_pair(self, offset_ticks=1, default=("answer", 2 / 16.0)):
        """Two overlapping callers in the current loop (the second starts offset_ticks later), both answered promptly.
        Returns the list of outcome kinds ("ok" or the exception type name)."""
        import asyncio
        self.steps.append({"op": "pair", "offset": offset_ticks})
        self.peer.set_script([], default=tuple(default))
        self.world.connect_script = []
        cmds = [make_command(self.transport, self.protocol, None), make_command(self.transport, self.protocol, None)]

        async def one(i):
            await asyncio.sleep(secs(i * offset_ticks, self.T))
            try:
                await self.execute(cmds[i])
                return "ok"
            except BaseException as ex:      # noqa: B036 - reported as the outcome kind, nothing is swallowed
                return type(ex).__name__

        async def both():
            return await asyncio.gather(one(0), one(1))

        out = self._run(both())
        if out.hang is not None:
            return ["hang", "hang"], out
        if out.exc is not None:
            return [type(out.exc).__name__] * 2, out
        return list(out.result), out

    def close(self):
        self.steps.append({"op": "close"})
        out = self._run(self.protocol.close())
        return out, set(self.world.open)

    def idle(self):
        self.steps.append({"op": "idle"})
        self.loop.idle()

    def sleep(self, ticks):
        import asyncio
        self.steps.append({"op": "sleep", "ticks": ticks})
        self._run(asyncio.sleep(secs(ticks, self.T)))

    def new_loop(self, close_old=True):
        """close_old=True: what successive asyncio.run() calls do.  False: the previous loop is merely no longer run (a program
        that keeps several loops around, e.g. loop.run_until_complete() on a fresh loop per call) - it is closed at the end."""
        self.steps.append({"op": "newloop" if close_old else "newloop-open"})
        self.errors.extend(self.loop.errors)
        now = self.loop.vtime
        if close_old:
            self.loop.shutdown()
        else:
            self._parked = getattr(self, "_parked", []) + [self.loop]
        self.loop = VLoop(self.world, start=now, max_time=now + 1e5)

    def finish(self):
        for old in getattr(self, "_parked", []):
            if not old.is_closed():
                try:
                    old.shutdown()
                except Exception:
                    pass
        if not self.loop.is_closed():
            self.loop.idle()
            self.errors.extend(self.loop.errors)
            self.loop.shutdown()
        return self.errors

    def case(self):
        return {"transport": self.transport, "T": self.T, "R": self.R, "keep": self.keep, "api": self.api,
                "latency": self.world.connect_latency, "steps": list(self.steps)}
