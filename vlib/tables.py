"""Discovery of the sensor/setting tables of the inverter classes (walks class attributes, so new sensors are covered)."""
from __future__ import annotations


def family_classes():
    import goodwe
    return {"ET": goodwe.ET, "DT": goodwe.DT, "ES": goodwe.ES}


def tables(cls):
    """{attribute name: tuple of Sensor objects} for every class-level tuple of sensors."""
    from goodwe.inverter import Sensor
    out = {}
    for name, val in vars(cls).items():
        if isinstance(val, tuple) and val and all(isinstance(x, Sensor) for x in val):
            out[name.split("__")[-1]] = val
    return out


def all_sensors():
    """list of (family, table name, index, sensor)"""
    out = []
    for fam, cls in family_classes().items():
        for tname, tab in sorted(tables(cls).items()):
            for i, s in enumerate(tab):
                out.append((fam, tname, i, s))
    return out


def is_settings_table(tname: str) -> bool:
    return "setting" in tname


def find(fam, tname, index):
    return tables(family_classes()[fam])[tname][index]


# ---------------------------------------------------------------------------------------------
# the sensor / setting definitions are class-level objects that some types mutate when they decode a value
# (eco-mode / schedule groups).  Checks whose cases must not depend on each other restore the import-time state.
# ---------------------------------------------------------------------------------------------
_PRISTINE = None


def snapshot_definitions():
    """Remember the attribute dict of every definition object (called right after importing the library)."""
    global _PRISTINE
    import copy
    from goodwe.sensor import EcoMode
    # only the group types decode into themselves; restoring all ~500 definitions per case would dominate run time
    _PRISTINE = [(s, copy.copy(vars(s))) for (_f, _t, _i, s) in all_sensors() if isinstance(s, EcoMode)]


def restore_definitions():
    if _PRISTINE is None:
        snapshot_definitions()
        return
    for obj, attrs in _PRISTINE:
        d = vars(obj)
        if d != attrs:
            d.clear()
            d.update(attrs)
