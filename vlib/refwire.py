"""E1 - independent reference codec for the three framings used by goodwe.

Written from the protocol descriptions (Modbus application protocol, Modbus/TCP MBAP header, GoodWe's
"AA55" envelope), NOT from goodwe/modbus.py.  Used as oracle for request encoding (C03), as frame
builder for conforming answers (C02 ...) and as the acceptance predicate N of C01.
"""
from __future__ import annotations

FC_READ = 0x03
FC_WRITE = 0x06
FC_WRITE_MULTI = 0x10


# ---------------------------------------------------------------------------------------------
# checksums
# ---------------------------------------------------------------------------------------------
def crc16(data: bytes) -> int:
    """CRC-16/MODBUS, computed bit by bit (reflected poly 0xA001, init 0xFFFF)."""
    crc = 0xFFFF
    for b in data:
        crc ^= b
        for _ in range(8):
            if crc & 1:
                crc = (crc >> 1) ^ 0xA001
            else:
                crc >>= 1
    return crc


assert crc16(b"123456789") == 0x4B37, "CRC-16/MODBUS self check failed"

# byte-wise table derived from the bit-wise definition above (speed only; cross-checked against it at import)
_T = []
for _i in range(256):
    _c = _i
    for _ in range(8):
        _c = (_c >> 1) ^ 0xA001 if _c & 1 else _c >> 1
    _T.append(_c)
_bitwise_crc16 = crc16


def crc16(data: bytes) -> int:  # noqa: F811
    crc = 0xFFFF
    for b in data:
        crc = (crc >> 8) ^ _T[(crc ^ b) & 0xFF]
    return crc


for _probe in (b"", b"\x00", b"123456789", bytes(range(256)), b"\xff" * 40):
    assert crc16(_probe) == _bitwise_crc16(_probe), "table-driven CRC disagrees with the bit-wise definition"


def crc_bytes(data: bytes) -> bytes:
    c = crc16(data)
    return bytes((c & 0xFF, c >> 8))  # low byte first on the wire


def sum16(data: bytes) -> int:
    """AA55 additive checksum, modulo 2**16."""
    s = 0
    for b in data:
        s += b
    return s & 0xFFFF


def u16(v: int) -> bytes:
    v &= 0xFFFF
    return bytes((v >> 8, v & 0xFF))


def be16(b: bytes, i: int = 0) -> int:
    return (b[i] << 8) | b[i + 1]


def s16(v: int) -> int:
    v &= 0xFFFF
    return v - 0x10000 if v & 0x8000 else v


# ---------------------------------------------------------------------------------------------
# operations (what a request means)
# ---------------------------------------------------------------------------------------------
class ParseError(Exception):
    pass


def op_read(addr, reg, count):
    return {"kind": "read", "addr": addr, "reg": reg, "count": count}


def op_write(addr, reg, value):
    """value is stored as the unsigned 16-bit word (two's complement of negative values)."""
    return {"kind": "write", "addr": addr, "reg": reg, "word": value & 0xFFFF}


def op_write_multi(addr, reg, data: bytes):
    return {"kind": "write_multi", "addr": addr, "reg": reg, "data": bytes(data)}


# ---------------------------------------------------------------------------------------------
# Modbus PDU
# ---------------------------------------------------------------------------------------------
def _build_pdu(op) -> bytes:
    k = op["kind"]
    if k == "read":
        return bytes((FC_READ,)) + u16(op["reg"]) + u16(op["count"])
    if k == "write":
        return bytes((FC_WRITE,)) + u16(op["reg"]) + u16(op["word"])
    if k == "write_multi":
        d = op["data"]
        return bytes((FC_WRITE_MULTI,)) + u16(op["reg"]) + u16(len(d) // 2) + bytes((len(d),)) + d
    raise ValueError(k)


def _parse_pdu(addr: int, pdu: bytes):
    if len(pdu) < 5:
        raise ParseError("PDU too short")
    fc = pdu[0]
    reg = be16(pdu, 1)
    if fc == FC_READ:
        if len(pdu) != 5:
            raise ParseError("read PDU must be 5 bytes, got %d" % len(pdu))
        return op_read(addr, reg, be16(pdu, 3))
    if fc == FC_WRITE:
        if len(pdu) != 5:
            raise ParseError("write PDU must be 5 bytes, got %d" % len(pdu))
        return op_write(addr, reg, be16(pdu, 3))
    if fc == FC_WRITE_MULTI:
        if len(pdu) < 6:
            raise ParseError("write-multi PDU too short")
        nreg = be16(pdu, 3)
        nbytes = pdu[5]
        data = pdu[6:]
        if nbytes != len(data):
            raise ParseError("byte count %d != payload length %d" % (nbytes, len(data)))
        if nreg * 2 != len(data):
            raise ParseError("register count %d != bytes/2 (%d bytes)" % (nreg, len(data)))
        return op_write_multi(addr, reg, data)
    raise ParseError("unknown function code 0x%02x" % fc)


# ---------------------------------------------------------------------------------------------
# Modbus RTU request / GoodWe RTU response envelope (AA 55 | addr fc ... | crc lo hi)
# ---------------------------------------------------------------------------------------------
def build_rtu_request(op) -> bytes:
    body = bytes((op["addr"],)) + _build_pdu(op)
    return body + crc_bytes(body)


def parse_rtu_request(frame: bytes):
    if len(frame) < 8:
        raise ParseError("RTU request too short (%d)" % len(frame))
    body, crc = frame[:-2], frame[-2:]
    if crc_bytes(body) != crc:
        raise ParseError("RTU request CRC mismatch")
    return _parse_pdu(body[0], body[1:])


def rtu_read_response(addr: int, payload: bytes) -> bytes:
    body = bytes((addr, FC_READ, len(payload) & 0xFF)) + payload
    return b"\xaa\x55" + body + crc_bytes(body)


def rtu_read_response_unsealed(addr: int, payload: bytes) -> bytes:
    """Frame with a dummy CRC for decoding-only checks (ProtocolResponse does not validate)."""
    return b"\xaa\x55" + bytes((addr, FC_READ, len(payload) & 0xFF)) + payload + b"\x00\x00"


def rtu_write_response(addr: int, reg: int, word: int) -> bytes:
    body = bytes((addr, FC_WRITE)) + u16(reg) + u16(word)
    return b"\xaa\x55" + body + crc_bytes(body)


def rtu_write_multi_response(addr: int, reg: int, nreg: int) -> bytes:
    body = bytes((addr, FC_WRITE_MULTI)) + u16(reg) + u16(nreg)
    return b"\xaa\x55" + body + crc_bytes(body)


def rtu_exception_response(addr: int, fc: int, code: int) -> bytes:
    body = bytes((addr, fc | 0x80, code))
    return b"\xaa\x55" + body + crc_bytes(body)


# ---------------------------------------------------------------------------------------------
# Modbus/TCP
# ---------------------------------------------------------------------------------------------
def build_tcp_request(op, tx: int) -> bytes:
    pdu = _build_pdu(op)
    return u16(tx) + b"\x00\x00" + u16(len(pdu) + 1) + bytes((op["addr"],)) + pdu


def parse_tcp_request(frame: bytes):
    """Return (tx, op)."""
    if len(frame) < 12:
        raise ParseError("TCP request too short (%d)" % len(frame))
    tx = be16(frame, 0)
    if be16(frame, 2) != 0:
        raise ParseError("protocol id != 0")
    ln = be16(frame, 4)
    if ln != len(frame) - 6:
        raise ParseError("length field %d != bytes that follow %d" % (ln, len(frame) - 6))
    return tx, _parse_pdu(frame[6], frame[7:])


def tcp_frame(tx: int, unit: int, pdu: bytes) -> bytes:
    return u16(tx) + b"\x00\x00" + u16(len(pdu) + 1) + bytes((unit,)) + pdu


def tcp_read_response(tx: int, unit: int, payload: bytes) -> bytes:
    return tcp_frame(tx, unit, bytes((FC_READ, len(payload) & 0xFF)) + payload)


def tcp_write_response(tx: int, unit: int, reg: int, word: int) -> bytes:
    return tcp_frame(tx, unit, bytes((FC_WRITE,)) + u16(reg) + u16(word))


def tcp_write_multi_response(tx: int, unit: int, reg: int, nreg: int) -> bytes:
    return tcp_frame(tx, unit, bytes((FC_WRITE_MULTI,)) + u16(reg) + u16(nreg))


def tcp_exception_response(tx: int, unit: int, fc: int, code: int) -> bytes:
    return tcp_frame(tx, unit, bytes((fc | 0x80, code)))


# ---------------------------------------------------------------------------------------------
# AA55
# ---------------------------------------------------------------------------------------------
AA55_REQ_HDR = b"\xaa\x55\xc0\x7f"
AA55_RSP_HDR = b"\xaa\x55\x7f\xc0"


def build_aa55_request(cmd: bytes, payload: bytes) -> bytes:
    body = AA55_REQ_HDR + cmd + bytes((len(payload),)) + payload
    return body + u16(sum16(body))


def parse_aa55_request(frame: bytes):
    """Return (cmd(2 bytes), payload)."""
    if len(frame) < 9:
        raise ParseError("AA55 request too short")
    if frame[:4] != AA55_REQ_HDR:
        raise ParseError("AA55 request header %s" % frame[:4].hex())
    ln = frame[6]
    if len(frame) != 9 + ln:
        raise ParseError("AA55 length byte %d != payload length %d" % (ln, len(frame) - 9))
    if be16(frame, len(frame) - 2) != sum16(frame[:-2]):
        raise ParseError("AA55 checksum mismatch")
    return frame[4:6], frame[7:-2]


def aa55_response(rtype: bytes, payload: bytes) -> bytes:
    body = AA55_RSP_HDR + rtype + bytes((len(payload),)) + payload
    return body + u16(sum16(body))


# ---------------------------------------------------------------------------------------------
# N(framing, command, bytes): necessary conditions for acceptance, exactly as enumerated by C01
# ---------------------------------------------------------------------------------------------
def necessary_rtu(op, x: bytes) -> str | None:
    """Return None if x satisfies the C01 conditions for being accepted as answer to op, else reason."""
    if len(x) < 5:
        return "too short"
    fc = x[3]
    k = op["kind"]
    want_fc = {"read": FC_READ, "write": FC_WRITE, "write_multi": FC_WRITE_MULTI}[k]
    if fc != want_fc:
        return "function code 0x%02x != 0x%02x" % (fc, want_fc)
    if k == "read":
        if x[4] != 2 * op["count"]:
            return "byte count %d != 2*%d" % (x[4], op["count"])
        need = 5 + x[4] + 2
        if len(x) < need:
            return "shorter (%d) than announced (%d)" % (len(x), need)
        end = 5 + x[4]
        if crc_bytes(x[2:end]) != x[end:end + 2]:
            return "crc mismatch"
        return None
    if len(x) < 10:
        return "write answer shorter than 10"
    if be16(x, 4) != op["reg"]:
        return "echoed register differs"
    want_word = op["word"] if k == "write" else (len(op["data"]) // 2) & 0xFFFF
    if be16(x, 6) != want_word:
        return "echoed value differs"
    if crc_bytes(x[2:8]) != x[8:10]:
        return "crc mismatch"
    return None


def necessary_tcp(op, x: bytes) -> str | None:
    if len(x) < 9:
        return "too short"
    fc = x[7]
    k = op["kind"]
    want_fc = {"read": FC_READ, "write": FC_WRITE, "write_multi": FC_WRITE_MULTI}[k]
    if fc != want_fc:
        return "function code 0x%02x != 0x%02x" % (fc, want_fc)
    if k == "read":
        if x[8] != 2 * op["count"]:
            return "byte count %d != 2*%d" % (x[8], op["count"])
        if len(x) < 9 + x[8]:
            return "shorter than announced"
        return None
    if len(x) < 12:
        return "write answer shorter than 12"
    if be16(x, 8) != op["reg"]:
        return "echoed register differs"
    want_word = op["word"] if k == "write" else (len(op["data"]) // 2) & 0xFFFF
    if be16(x, 10) != want_word:
        return "echoed value differs"
    return None


def necessary_aa55(rtype: bytes, x: bytes) -> str | None:
    if len(x) < 9:
        return "too short"
    if len(x) != 9 + x[6]:
        return "length %d != 9 + length byte %d" % (len(x), x[6])
    if rtype and x[4:6] != rtype:
        return "response type differs"
    if be16(x, len(x) - 2) != sum16(x[:-2]):
        return "checksum mismatch"
    return None


MODBUS_EXCEPTION_NAMES = {
    # Modbus application protocol v1.1b3, section 7; SLAVE==SERVER wording normalised by the checks
    1: "ILLEGAL FUNCTION",
    2: "ILLEGAL DATA ADDRESS",
    3: "ILLEGAL DATA VALUE",
    4: "SERVER DEVICE FAILURE",
    5: "ACKNOWLEDGE",
    6: "SERVER DEVICE BUSY",
    7: "NEGATIVE ACKNOWLEDGE",
    8: "MEMORY PARITY ERROR",
    10: "GATEWAY PATH UNAVAILABLE",
    11: "GATEWAY TARGET DEVICE FAILED TO RESPOND",
}


def normalise_reason(text: str) -> str:
    return text.upper().replace("SLAVE", "SERVER").replace("ACKNOWLEDGEMENT", "ACKNOWLEDGE").strip()
