"""E3 - simulated inverters: Modbus register file (ET, DT) and AA55 model (ES).

The simulators are the reference model for the setting/sensor properties: what was written must read back,
only the addressed registers change, reads never write, refused blocks answer ILLEGAL DATA ADDRESS.
Requests are parsed with the strict reference parser (a malformed request is recorded in .bad_requests).
"""
from __future__ import annotations

from . import refwire as rw


class Refused(Exception):
    def __init__(self, code):
        self.code = code


class ModbusSim:
    def __init__(self, default=0, refuse=(), refuse_code=2):
        self.regs = {}
        self.default = default          # int, or callable addr -> word
        self.refused = list(refuse)     # inclusive (lo, hi) ranges: any access touching one is refused
        self.refuse_code = refuse_code
        self.log = []                   # ("R", reg, count) | ("W", reg, (words...)) | ("X", fc, reg, code)
        self.write_hook = None

    # -- register file -------------------------------------------------------------------------
    def get(self, a):
        v = self.regs.get(a)
        if v is None:
            d = self.default
            v = d(a) if callable(d) else d
        return v & 0xFFFF

    def set(self, a, v):
        self.regs[a] = v & 0xFFFF

    def set_bytes(self, reg, data: bytes):
        assert len(data) % 2 == 0
        for i in range(0, len(data), 2):
            self.regs[reg + i // 2] = (data[i] << 8) | data[i + 1]

    def get_bytes(self, reg, count) -> bytes:
        out = bytearray()
        for a in range(reg, reg + count):
            w = self.get(a)
            out += bytes((w >> 8, w & 0xFF))
        return bytes(out)

    def snapshot(self):
        return dict(self.regs)

    def _check(self, reg, count, fc):
        if count < 1 or reg + count > 0x10000:
            self.log.append(("X", fc, reg, 2))
            raise Refused(2)
        hi = reg + count - 1
        for lo_r, hi_r in self.refused:
            if reg <= hi_r and hi >= lo_r:
                self.log.append(("X", fc, reg, self.refuse_code))
                raise Refused(self.refuse_code)

    # -- operations ----------------------------------------------------------------------------
    def read(self, reg, count) -> bytes:
        self._check(reg, count, 3)
        self.log.append(("R", reg, count))
        return self.get_bytes(reg, count)

    def write(self, reg, words, fc=6):
        self._check(reg, len(words), fc)
        self.log.append(("W", reg, tuple(w & 0xFFFF for w in words)))
        for i, w in enumerate(words):
            self.regs[reg + i] = w & 0xFFFF
        if self.write_hook:
            self.write_hook(reg, words)

    def writes(self):
        return [e for e in self.log if e[0] == "W"]

    def handle(self, op):
        """op from refwire; returns ("read", payload) | ("write", reg, word) | ("write_multi", reg, n) | ("exc", fc, code)."""
        k = op["kind"]
        try:
            if k == "read":
                if op["count"] > 125:
                    self.log.append(("X", 3, op["reg"], 3))
                    return ("exc", 3, 3)
                return ("read", self.read(op["reg"], op["count"]))
            if k == "write":
                self.write(op["reg"], [op["word"]], 6)
                return ("write", op["reg"], op["word"])
            d = op["data"]
            words = [(d[i] << 8) | d[i + 1] for i in range(0, len(d), 2)]
            self.write(op["reg"], words, 16)
            return ("write_multi", op["reg"], len(words))
        except Refused as r:
            return ("exc", {"read": 3, "write": 6, "write_multi": 16}[k], r.code)


class _SimResponderBase:
    def __init__(self, sim: ModbusSim):
        self.sim = sim
        self.bad_requests = []


class RtuSimResponder(_SimResponderBase):
    framing = "rtu"

    def respond(self, data):
        try:
            op = rw.parse_rtu_request(data)
        except rw.ParseError as ex:
            self.bad_requests.append((bytes(data), str(ex)))
            return None
        r = self.sim.handle(op)
        a = op["addr"]
        if r[0] == "read":
            return rw.rtu_read_response(a, r[1])
        if r[0] == "write":
            return rw.rtu_write_response(a, r[1], r[2])
        if r[0] == "write_multi":
            return rw.rtu_write_multi_response(a, r[1], r[2])
        return rw.rtu_exception_response(a, r[1], r[2])

    def exception(self, data, code):
        return rw.rtu_exception_response(data[0], data[1], code)

    def corrupt(self, resp):
        return resp[:-1] + bytes((resp[-1] ^ 0x01,))

    def garbage(self, data):
        return b"\xaa\x55" + bytes((data[0], 0x55)) + b"garbage!" + b"\x00\x00"


class TcpSimResponder(_SimResponderBase):
    framing = "tcp"

    def respond(self, data):
        try:
            tx, op = rw.parse_tcp_request(data)
        except rw.ParseError as ex:
            self.bad_requests.append((bytes(data), str(ex)))
            return None
        r = self.sim.handle(op)
        a = op["addr"]
        if r[0] == "read":
            out = rw.tcp_read_response(tx, a, r[1])
        elif r[0] == "write":
            out = rw.tcp_write_response(tx, a, r[1], r[2])
        elif r[0] == "write_multi":
            out = rw.tcp_write_multi_response(tx, a, r[1], r[2])
        else:
            out = rw.tcp_exception_response(tx, a, r[1], r[2])
        if self.trailing and r[0] == "read":
            # bytes after the announced payload (e.g. an RTU-over-TCP gateway forwarding the CRC); the library accepts such
            # answers as valid, the announced byte count says what the payload is
            out = out + self.trailing
        if self.mbap_len is not None:
            # GoodWe firmware quirk: the MBAP length field does not describe the frame (e.g. the request's value 6 is echoed);
            # the library documents that it ignores the field
            out = out[:4] + (self.mbap_len & 0xFFFF).to_bytes(2, "big") + out[6:]
        return out

    mbap_len = None
    trailing = b""

    def exception(self, data, code):
        return rw.tcp_exception_response(rw.be16(data, 0), data[6], data[7], code)

    def corrupt(self, resp):
        b = bytearray(resp)
        b[8] ^= 0x01
        return bytes(b)

    def garbage(self, data):
        return data[:6] + bytes((data[6], 0x03, 0x01)) + b"g"


# ---------------------------------------------------------------------------------------------
# ES (AA55) model
# ---------------------------------------------------------------------------------------------
# response types as es.py / tests/mock_aa55_server.py expect them (vendor constants, transcribed)
AA55_ACK_TYPES = {
    b"\x03\x27": b"\x03\xb7",   # relay control is acknowledged with 03B7
    b"\x03\x26": b"\x03\xb6",   # store energy mode is acknowledged with 03B6
}
SETTINGS_BASE_REG = 0x550        # settings block byte i  <->  register 0x550 + i // 2


def es_device_info(firmware=b"02041", model=b"GW5048-ESA", serial=b"95048ESA000W0000", arm_fw=b"410-04025-25", pad=0x20):
    b = bytearray([pad]) * 86
    b[0:5] = firmware[:5].ljust(5, b" ")
    b[5:15] = model[:10].ljust(10, b" ")
    b[15:31] = bytes(16)
    b[31:47] = serial[:16].ljust(16, b" ")
    b[47:51] = b"    "
    b[51:63] = arm_fw[:12].ljust(12, b" ")
    return bytes(b)


class Aa55Sim:
    """ES family inverter: three byte blocks + register space, vendor write commands, optional Modbus access."""

    def __init__(self, device_info=None, runtime=None, settings=None, modbus: ModbusSim | None = None):
        self.device_info = device_info if device_info is not None else es_device_info()
        self.runtime = bytearray(runtime if runtime is not None else bytes(142))
        self.settings = bytearray(settings if settings is not None else bytes(86))
        self.regs = {}                 # register space of 011A / 0239 outside the settings alias
        self.modbus = modbus or ModbusSim()
        self.log = []                  # ("R", cmd_hex) | ("W", cmd_hex, payload_hex)
        self.bad_requests = []
        self.rtu = RtuSimResponder(self.modbus)

    # -- register space ------------------------------------------------------------------------
    def reg_get(self, a):
        i = (a - SETTINGS_BASE_REG) * 2
        if 0 <= i and i + 1 < len(self.settings):
            return (self.settings[i] << 8) | self.settings[i + 1]
        return self.regs.get(a, 0) & 0xFFFF

    def reg_set(self, a, v):
        i = (a - SETTINGS_BASE_REG) * 2
        if 0 <= i and i + 1 < len(self.settings):
            self.settings[i] = (v >> 8) & 0xFF
            self.settings[i + 1] = v & 0xFF
        else:
            self.regs[a] = v & 0xFFFF

    def reg_bytes(self, reg, count):
        out = bytearray()
        for a in range(reg, reg + count):
            w = self.reg_get(a)
            out += bytes((w >> 8, w & 0xFF))
        return bytes(out)

    def snapshot(self):
        return (bytes(self.settings), dict(self.regs), self.modbus.snapshot())

    def write_log(self):
        return [e for e in self.log if e[0] == "W"] + [("WM",) + e[1:] for e in self.modbus.writes()]

    # -- protocol ------------------------------------------------------------------------------
    def respond(self, data):
        if data[:2] != b"\xaa\x55":
            return self.rtu.respond(data)
        try:
            cmd, payload = rw.parse_aa55_request(data)
        except rw.ParseError as ex:
            self.bad_requests.append((bytes(data), str(ex)))
            return None
        rtype = AA55_ACK_TYPES.get(cmd, bytes((cmd[0], cmd[1] | 0x80)))
        if cmd[0] == 0x01:
            self.log.append(("R", cmd.hex(), payload.hex()))
            if cmd == b"\x01\x02":
                return rw.aa55_response(rtype, self.device_info)
            if cmd == b"\x01\x06":
                return rw.aa55_response(rtype, bytes(self.runtime))
            if cmd == b"\x01\x09":
                return rw.aa55_response(rtype, bytes(self.settings))
            if cmd == b"\x01\x1a" and len(payload) == 3:
                reg, count = rw.be16(payload, 0), payload[2]
                return rw.aa55_response(rtype, self.reg_bytes(reg, count))
            return None
        # write class
        self.log.append(("W", cmd.hex(), payload.hex()))
        if cmd == b"\x02\x39":
            reg = rw.be16(payload, 0)
            body = payload[3:]
            for i in range(0, len(body) - 1, 2):
                self.reg_set(reg + i // 2, (body[i] << 8) | body[i + 1])
        elif cmd == b"\x03\x35" and len(payload) == 2:      # export limit -> settings byte 52
            self._set_settings_word(52, rw.be16(payload, 0))
        elif cmd == b"\x03\x59" and len(payload) == 1:      # work mode -> settings byte 66
            self._set_settings_word(66, payload[0])
        return rw.aa55_response(rtype, b"\x06")

    def _set_settings_word(self, i, v):
        if i + 1 < len(self.settings):
            self.settings[i] = (v >> 8) & 0xFF
            self.settings[i + 1] = v & 0xFF

    framing = "aa55"

    def exception(self, data, code):
        if data[:2] != b"\xaa\x55":
            return self.rtu.exception(data, code)
        return rw.aa55_response(b"\x01\xff", bytes((code,)))

    def corrupt(self, resp):
        return resp[:-1] + bytes((resp[-1] ^ 0x01,))

    def garbage(self, data):
        if data[:2] != b"\xaa\x55":
            return self.rtu.garbage(data)
        return rw.AA55_RSP_HDR + data[4:5] + bytes((data[5] | 0x80,)) + b"\x04garb\x00\x01"


# ---------------------------------------------------------------------------------------------
# device-info blocks for the Modbus families
# ---------------------------------------------------------------------------------------------
def et_device_info(serial=b"9010KETU000W0000", model=b"GW10K-ET  ", rated_power=10000, ac_output_type=1,
                   modbus_version=1, dsp1=4, dsp2=4, dsp_svn=1, arm=18, arm_svn=1,
                   firmware=b"04029-04-S11", arm_firmware=b"02041-18-S00"):
    """33 registers from 35000 (0x88b8)."""
    b = bytearray(66)
    b[0:2] = rw.u16(modbus_version)
    b[2:4] = rw.u16(rated_power)
    b[4:6] = rw.u16(ac_output_type)
    b[6:22] = serial[:16].ljust(16, b" ")
    b[22:32] = model[:10].ljust(10, b" ")
    b[32:34] = rw.u16(dsp1)
    b[34:36] = rw.u16(dsp2)
    b[36:38] = rw.u16(dsp_svn)
    b[38:40] = rw.u16(arm)
    b[40:42] = rw.u16(arm_svn)
    b[42:54] = firmware[:12].ljust(12, b" ")
    b[54:66] = arm_firmware[:12].ljust(12, b" ")
    return bytes(b)


def dt_device_info(serial=b"9010KDTU000W0000", model=b"GW10K-DT  ", dsp1=12, dsp2=12, arm=16):
    """40 registers from 30001 (0x7531)."""
    b = bytearray(80)
    b[6:22] = serial[:16].ljust(16, b" ")
    b[22:32] = model[:10].ljust(10, b" ")
    b[66:68] = rw.u16(dsp1)
    b[68:70] = rw.u16(dsp2)
    b[70:72] = rw.u16(arm)
    return bytes(b)


ET_BLOCKS = {
    "device_info": (0x88b8, 0x21), "running": (0x891c, 0x7d), "meter": (0x8ca0, 0x2d), "meter_ext": (0x8ca0, 0x3a),
    "meter_ext2": (0x8ca0, 0x7d), "battery": (0x9088, 0x18), "battery2": (0x9858, 0x16), "mppt": (0x89e5, 0x3d),
    "eco_v2": (47547, 6), "peak_shaving": (47589, 6),
}
DT_BLOCKS = {
    "device_info": (0x7531, 0x28), "meter_version": (0x756f, 0x14), "model": (0x9ced, 8), "running": (0x7594, 0x49),
    "meter": (0x75f3, 0xf),
}


def make_et_sim(serial=b"9010KETU000W0000", rated_power=10000, default=0, refuse_blocks=(), **info):
    """ET register file with a device-info block; refuse_blocks: names whose *distinguishing* registers are refused."""
    sim = ModbusSim(default=default)
    sim.set_bytes(0x88b8, et_device_info(serial=serial, rated_power=rated_power, **info) )
    for name in refuse_blocks:
        sim.refused.append(ET_REFUSE_RANGES[name])
    return sim


# refusing these ranges makes exactly the named read (and larger supersets) fail, smaller windows still work
ET_REFUSE_RANGES = {
    "battery": (0x9088, 0x9088 + 0x18 - 1),
    "battery2": (0x9858, 0x9858 + 0x16 - 1),
    "meter_ext2": (0x8ca0 + 0x3a, 0x8ca0 + 0x7d - 1),     # 36058..36124: extended-2 only
    "meter_ext": (0x8ca0 + 0x2d, 0x8ca0 + 0x7d - 1),      # 36045..36124: extended and extended-2
    "mppt": (0x89e5, 0x89e5 + 0x3d - 1),
    "eco_v2": (47547, 47570),
    "peak_shaving": (47589, 47594),
}
DT_REFUSE_RANGES = {
    "meter": (0x75f3, 0x75f3 + 0xf - 1),
    "meter_version": (0x756f, 0x756f + 0x14 - 1),
    "model": (0x9ced, 0x9ced + 7),
}


def make_dt_sim(serial=b"9010KDTU000W0000", default=0, refuse_blocks=(), **info):
    sim = ModbusSim(default=default)
    sim.set_bytes(0x7531, dt_device_info(serial=serial, **info))
    for name in refuse_blocks:
        sim.refused.append(DT_REFUSE_RANGES[name])
    return sim


# ---------------------------------------------------------------------------------------------
# direct path: Inverter objects whose _read_from_socket talks to a simulator synchronously
# ---------------------------------------------------------------------------------------------
class _Done:
    """What ProtocolCommand.execute() awaits from protocol.send_request(): an already completed 'future'."""
    __slots__ = ("value",)

    def __init__(self, value):
        self.value = value

    def result(self):
        return self.value


def attach_direct(inv, responder):
    """Synchronous round trip through `responder`: the TRANSPORT is replaced (protocol.send_request / close of this one
    object), everything above it is the library's own code - Inverter._read_from_socket (failure counter, logging),
    ProtocolCommand.execute, command.request_bytes(), command.validator() and ProtocolResponse.  No answer / an answer the
    validator refuses ends like an exhausted request (MaxRetriesException, which the inverter level turns into
    RequestFailedException); an exception frame raises RequestRejectedException out of the validator, as on the wire."""
    from goodwe.exceptions import MaxRetriesException
    proto = inv._protocol

    async def send_request(command):
        req = command.request_bytes()
        resp = responder.respond(req)
        if resp is None:
            raise MaxRetriesException()
        if command.validator(resp):       # may raise RequestRejectedException
            return _Done(resp)
        raise MaxRetriesException()

    async def close():
        return None

    proto.send_request = send_request
    proto.close = close
    inv._verif_responder = responder
    inv.__dict__.pop("_read_from_socket", None)
    return inv


def run_overlapping(inv, main_fn, others, responder=None, with_others=False):
    """Several public calls overlap on ONE inverter object: `main_fn()` starts at once, each `(fn, offset)` of `others`
    after `offset` scheduling steps.  Requests are served one at a time in arrival order (what the protocol lock does), each
    taking one scheduling step.  Exceptions of the other calls are swallowed (they are only the disturbance); returns
    (result, exception) of the main call.  Afterwards the object is back on the plain synchronous path."""
    import asyncio
    from goodwe.exceptions import MaxRetriesException
    responder = responder or inv._verif_responder
    proto = inv._protocol
    out = {}

    async def scenario():
        lock = asyncio.Lock()

        async def send_request(command):
            async with lock:
                req = command.request_bytes()
                await asyncio.sleep(0)
                resp = responder.respond(req)
                if resp is None:
                    raise MaxRetriesException()
                if command.validator(resp):
                    return _Done(resp)
                raise MaxRetriesException()

        proto.send_request = send_request

        async def main():
            try:
                out["result"] = await main_fn()
            except Exception as ex:      # judged by the caller
                out["exc"] = ex

        async def other(i, fn, offset):
            for _ in range(offset):
                await asyncio.sleep(0)
            try:
                out["others"][i] = (await fn(), None)
            except Exception as ex:
                out["others"][i] = (None, ex)

        out["others"] = [None] * len(others)
        await asyncio.gather(main(), *[other(i, fn, off) for i, (fn, off) in enumerate(others)])

    loop = asyncio.new_event_loop()
    try:
        loop.run_until_complete(scenario())
    finally:
        loop.close()
        attach_direct(inv, responder)
    if with_others:
        return out.get("result"), out.get("exc"), out.get("others")
    return out.get("result"), out.get("exc")


def responder_for(inv, sim):
    """Modbus responder matching the protocol class of the inverter object."""
    from goodwe.protocol import TcpInverterProtocol
    if isinstance(sim, Aa55Sim):
        return sim
    if isinstance(inv._protocol, TcpInverterProtocol):
        return TcpSimResponder(sim)
    return RtuSimResponder(sim)


# ---------------------------------------------------------------------------------------------
# model configurations (C14, C15, C16, C18)
# ---------------------------------------------------------------------------------------------
def et_serials():
    """One serial number per ET tag of goodwe/model.py plus the special substrings and a neutral one."""
    import goodwe.model as gm
    out = []
    for tag in gm.ET_MODEL_TAGS:
        out.append(("9010K" + tag + "000W0000")[:16].encode())
    out += [b"925KETT000W00001", b"929K9ETT00W00001", b"925KETU000W00001", b"9010KXYZ000W0000", b"95000EHU000W0001", b"96000HSB000W0001"]
    return list(dict.fromkeys(out))


def dt_serials():
    import goodwe.model as gm
    out = [("9010K" + tag + "000W0000")[:16].encode() for tag in gm.DT_MODEL_TAGS]
    out += [b"9010KXYZ000W0000"]
    return list(dict.fromkeys(out))


def es_serials():
    import goodwe.model as gm
    return [("95048" + tag + "000W0000")[:16].encode() for tag in gm.ES_MODEL_TAGS] + [b"95048XYZ000W0000"]


ET_OPTIONAL = ("battery", "battery2", "meter_ext2", "meter_ext", "mppt", "eco_v2", "peak_shaving")
DT_OPTIONAL = ("meter", "meter_version", "model")


def make_inverter(family, tcp=False, T=1, R=0, host="192.0.2.1", comm_addr=0):
    import goodwe
    cls = {"ET": goodwe.ET, "DT": goodwe.DT, "ES": goodwe.ES}[family]
    return cls(host, 502 if tcp else 8899, comm_addr, T, R)


def build_direct(cfg, default=0):
    """cfg: family, serial(bytes), rated_power, battery_mode, refuse (names), tcp.  Returns (inverter, simulator)."""
    fam = cfg["family"]
    inv = make_inverter(fam, cfg.get("tcp", False), comm_addr=cfg.get("comm_addr", 0))
    if fam == "ET":
        sim = make_et_sim(serial=cfg["serial"], rated_power=cfg.get("rated_power", 10000), default=default,
                          refuse_blocks=cfg.get("refuse", ()))
        sim.set(35184, cfg.get("battery_mode", 1))
    elif fam == "DT":
        sim = make_dt_sim(serial=cfg["serial"], default=default, refuse_blocks=cfg.get("refuse", ()))
    else:
        sim = Aa55Sim(device_info=es_device_info(serial=cfg["serial"], firmware=cfg.get("firmware", b"02041")),
                      modbus=ModbusSim(default=default))
    attach_direct(inv, responder_for(inv, sim))
    return inv, sim
