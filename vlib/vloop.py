"""E2 - virtual-clock asyncio event loop, in-memory UDP/TCP transports and a scripted peer.

The loop is a real asyncio.BaseEventLoop (so tasks, futures, call_later, wait_for, locks are CPython's own);
only the selector is replaced: select(timeout) never blocks, it moves the virtual clock to the next timer.
select(None) - nothing ready, nothing scheduled, somebody still waiting - raises Hang.

Transport semantics are transcribed from CPython 3.12 asyncio/selector_events.py (see DESIGN.md E2).
"""
from __future__ import annotations

import asyncio
import errno as _errno
import heapq
import os

from . import refwire as rw


class Hang(Exception):
    """The awaited coroutine can never complete (no ready callback, no timer)."""


class Livelock(Exception):
    """Iteration budget of the loop exhausted (busy loop)."""


class _Selector:
    def __init__(self, loop):
        self.loop = loop

    def select(self, timeout):
        loop = self.loop
        loop.iterations += 1
        if loop.iterations > loop.max_iterations:
            raise Livelock("more than %d loop iterations" % loop.max_iterations)
        if timeout is None:
            raise Hang("nothing ready and nothing scheduled at t=%r" % loop.vtime)
        if timeout > 0:
            sched = loop._scheduled
            when = sched[0]._when if sched else loop.vtime + timeout
            if when > loop.vtime:
                loop.vtime = when
            if loop.vtime > loop.max_time:
                raise Hang("virtual time bound %r exceeded" % loop.max_time)
        return []

    def close(self):
        pass


class VLoop(asyncio.BaseEventLoop):
    def __init__(self, world: "World", start: float = 0.0, max_time: float = 1e6, max_iterations: int = 2_000_000):
        super().__init__()
        self.world = world
        self.vtime = start
        self.max_time = max_time
        self.max_iterations = max_iterations
        self.iterations = 0
        self._selector = _Selector(self)
        self._clock_resolution = 1e-9
        self.errors = []  # contexts passed to the loop exception handler
        self.set_exception_handler(self._on_error)

    def _on_error(self, loop, context):
        self.errors.append(context)

    def time(self):
        return self.vtime

    def _process_events(self, event_list):
        pass

    def _write_to_self(self):
        pass

    # ---- endpoints -----------------------------------------------------------------------
    async def create_datagram_endpoint(self, protocol_factory, local_addr=None, remote_addr=None, **kw):
        w = self.world
        outcome = w.next_connect_outcome()      # opening a connected UDP socket can fail too (resolution, routing)
        if outcome != "ok":
            w.connect_attempts.append((self.vtime, outcome))
        for _ in range(w.connect_latency):
            await asyncio.sleep(0)
        if outcome == "unreachable":
            raise OSError(_errno.ENETUNREACH, "Network is unreachable")
        if outcome == "hostunreach":
            raise OSError(_errno.EHOSTUNREACH, "No route to host")
        if outcome == "gaierror":
            import socket as _socket
            raise _socket.gaierror(-2, "Name or service not known")
        if outcome == "multiple":
            raise OSError("Multiple exceptions: [Errno 101] Network is unreachable, [Errno 113] No route to host")
        protocol = protocol_factory()
        waiter = self.create_future()
        transport = FakeUdpTransport(self, w, protocol, remote_addr, waiter)
        try:
            await waiter
        except BaseException:
            transport.close()
            raise
        return transport, protocol

    async def create_connection(self, protocol_factory, host=None, port=None, **kw):
        w = self.world
        outcome = w.next_connect_outcome()
        w.connect_attempts.append((self.vtime, outcome))
        for _ in range(max(1, w.connect_latency)):
            await asyncio.sleep(0)
        if outcome == "refused":
            raise ConnectionRefusedError(_errno.ECONNREFUSED, "Connect call failed %r" % ((host, port),))
        if outcome == "unreachable":
            raise OSError(_errno.ENETUNREACH, "Network is unreachable")
        if outcome == "hostunreach":
            raise OSError(_errno.EHOSTUNREACH, "No route to host")
        if outcome == "timeout":
            raise TimeoutError(_errno.ETIMEDOUT, "Connection timed out")
        if outcome == "gaierror":
            import socket as _socket
            raise _socket.gaierror(-2, "Name or service not known")
        if outcome == "multiple":      # what asyncio raises when several resolved addresses all fail
            raise OSError("Multiple exceptions: [Errno 111] Connect call failed ('192.0.2.1', 502), [Errno 101] Network is unreachable")
        if outcome == "hangs":
            await self.create_future()  # never completes; only cancellation ends it
        protocol = protocol_factory()
        waiter = self.create_future()
        transport = FakeTcpTransport(self, w, protocol, (host, port), waiter)
        try:
            await waiter
        except BaseException:
            transport.close()
            raise
        return transport, protocol

    # ---- helpers ---------------------------------------------------------------------------
    def run(self, coro):
        """run_until_complete returning an Outcome (never raises the coroutine's exception)."""
        t0 = self.vtime
        out = Outcome()
        out.t_start = t0
        try:
            out.result = self.run_until_complete(coro)
        except (Hang, Livelock) as ex:
            out.hang = ex
            # the task is still pending; cancel it so that closing the loop is silent
            for t in asyncio.all_tasks(self):
                t.cancel()
            try:
                self.iterations = 0
                self.run_until_complete(asyncio.sleep(0))
            except BaseException:
                pass
        except BaseException as ex:  # noqa - the outcome of the coroutine, incl. CancelledError
            out.exc = ex
        out.t_end = self.vtime
        return out

    def idle(self, limit: float | None = None):
        """Let every pending callback and timer (stale library timers, late deliveries) run."""
        deadline = None if limit is None else self.vtime + limit

        async def _idle():
            while True:
                pending = [h for h in self._scheduled if not h._cancelled]
                if not pending and not self._ready:
                    return
                if self._ready:
                    await asyncio.sleep(0)
                    continue
                when = min(h._when for h in pending)
                if deadline is not None and when > deadline:
                    return
                await asyncio.sleep(max(0.0, when - self.vtime))
        try:
            self.run_until_complete(_idle())
        except (Hang, Livelock):
            pass

    def shutdown(self):
        """What asyncio.run does at the end: cancel leftovers, close the loop."""
        if self.world is not None and getattr(self.world, "harness_errors", None):
            from .harness import HarnessError
            errs, self.world.harness_errors = list(self.world.harness_errors), []
            raise HarnessError("scripted peer / responder raised: %r" % (errs[0],))
        try:
            tasks = [t for t in asyncio.all_tasks(self) if not t.done()]
            for t in tasks:
                t.cancel()
            if tasks:
                try:
                    self.run_until_complete(asyncio.gather(*tasks, return_exceptions=True))
                except BaseException:
                    pass
        finally:
            if not self.is_closed():
                self.close()


class Outcome:
    result = None
    exc = None
    hang = None
    t_start = 0.0
    t_end = 0.0

    def kind(self):
        if self.hang is not None:
            return "hang"
        if self.exc is not None:
            return type(self.exc).__name__
        return "ok"


# ---------------------------------------------------------------------------------------------
# transports
# ---------------------------------------------------------------------------------------------
class _FakeTransport(asyncio.transports._FlowControlMixin, asyncio.Transport):
    kind = "?"

    def __init__(self, loop: VLoop, world: "World", protocol, addr, waiter):
        super().__init__(None, loop)
        self._loop = loop
        self._vloop = loop
        self.world = world
        self._protocol = protocol
        # like a connected socket: the peer address is the RESOLVED numeric address, whatever name the caller configured
        self._name = addr
        self._addr = (world.resolve.get(addr[0], addr[0]),) + tuple(addr[1:]) if addr else addr
        self._closing = False
        self._conn_lost = 0
        self._eof = False
        self.tid = world.register(self)
        loop.call_soon(protocol.connection_made, self)
        loop.call_soon(asyncio.futures._set_result_unless_cancelled, waiter, None)

    def get_extra_info(self, name, default=None):
        if name == "peername":
            return self._addr
        return default  # 'socket' -> None: the library skips setsockopt

    def is_closing(self):
        return self._closing

    def close(self):
        if self._closing:
            return
        self._closing = True
        self.world.closed(self, "close")
        self._conn_lost += 1
        self._loop.call_soon(self._call_connection_lost, None)  # RuntimeError if the loop is closed

    def abort(self):
        self._force_close(None)

    def _force_close(self, exc):
        if self._conn_lost:
            return
        if not self._closing:
            self._closing = True
            self.world.closed(self, "force")
        self._conn_lost += 1
        self._loop.call_soon(self._call_connection_lost, exc)

    def _fatal_error(self, exc, message="Fatal error on transport"):
        if not isinstance(exc, OSError):
            self._loop.call_exception_handler({"message": message, "exception": exc, "transport": self,
                                               "protocol": self._protocol})
        self._force_close(exc)

    def _call_connection_lost(self, exc):
        try:
            self._protocol.connection_lost(exc)
        finally:
            self._protocol = None
            self._loop = None

    # -- peer side ---------------------------------------------------------------------------
    def alive(self):
        return not self._closing and not self._conn_lost and self._loop is not None and not self._vloop.is_closed()


class FakeUdpTransport(_FakeTransport, asyncio.DatagramTransport):
    kind = "udp"

    def sendto(self, data, addr=None):
        if not isinstance(data, (bytes, bytearray, memoryview)):
            raise TypeError("data argument must be a bytes-like object, not %r" % type(data).__name__)
        if not data:
            return
        if self._conn_lost:
            self._conn_lost += 1
            self.world.dropped_sends.append((self._vloop.vtime, self.tid, bytes(data)))
            return
        err = self.world.transmitted(self, bytes(data))
        if err is not None:
            self._protocol.error_received(err)

    def peer_deliver(self, data: bytes):
        if self.alive():
            self._protocol.datagram_received(data, self._addr)
            return True
        return False

    def peer_error(self, exc):
        if self.alive():
            self.world.peer_events.append((self._vloop.vtime, "error", self.tid))
            self._protocol.error_received(exc)
            return True
        return False


class FakeTcpTransport(_FakeTransport):
    kind = "tcp"

    def write(self, data):
        if not isinstance(data, (bytes, bytearray, memoryview)):
            raise TypeError("data argument must be a bytes-like object, not %r" % type(data).__name__)
        if self._eof:
            raise RuntimeError("Cannot call write() after write_eof()")
        if not data:
            return
        if self._conn_lost:
            self._conn_lost += 1
            self.world.dropped_sends.append((self._vloop.vtime, self.tid, bytes(data)))
            return
        err = self.world.transmitted(self, bytes(data))
        if err is not None:
            self._fatal_error(err, "Fatal write error on socket transport")

    def can_write_eof(self):
        return True

    def write_eof(self):
        self._eof = True

    def peer_deliver(self, data: bytes):
        if not self.alive():
            return False
        try:
            self._protocol.data_received(data)
        except (SystemExit, KeyboardInterrupt):
            raise
        except BaseException as exc:
            self._fatal_error(exc, "Fatal error: protocol.data_received() call failed.")
        return True

    def peer_eof(self):
        if not self.alive():
            return False
        self.world.peer_events.append((self._vloop.vtime, "eof", self.tid))
        try:
            keep_open = self._protocol.eof_received()
        except (SystemExit, KeyboardInterrupt):
            raise
        except BaseException as exc:
            self._fatal_error(exc, "Fatal error: protocol.eof_received() call failed.")
            return True
        if not keep_open:
            self.close()
        return True

    def peer_reset(self, exc):
        if not self.alive():
            return False
        self.world.peer_events.append((self._vloop.vtime, "reset", self.tid))
        self._fatal_error(exc, "Fatal read error on socket transport")
        return True


# ---------------------------------------------------------------------------------------------
# the world = network + peer
# ---------------------------------------------------------------------------------------------
DEFAULT_RESOLVE = {"inverter.local": "192.0.2.1", "goodwe-inverter": "192.0.2.1", "192.0.2.001": "192.0.2.1", "3221225985": "192.0.2.1"}


class World:
    """Everything outside the library: logs transmissions and transport life cycle, executes the peer."""

    def __init__(self, peer=None, connect_latency: int = 0, connect_script=None):
        self.peer = peer
        self.connect_latency = connect_latency
        self.connect_script = list(connect_script or [])
        self.connect_attempts = []
        self.transports = []
        self.tx = []            # (time, tid, bytes, failed:bool)
        self.deliveries = []    # (time, tid, answered tx index, bytes, delivered:bool, tx index in flight at receipt)
        self.events = []        # (time, what, tid)
        self.dropped_sends = []
        self.open = set()
        self.max_open = 0
        self._buckets = {}
        self.in_flight = {}     # token -> (tid, "data" | "event", answered tx index): what the peer still has on its way
        self.peer_events = []   # (time, error|eof|reset, tid): transport-killing events caused by the peer
        self.harness_errors = []   # exceptions raised by the scripted peer / responders themselves (see VLoop.shutdown)
        self.resolve = dict(DEFAULT_RESOLVE)   # host names / non-canonical spellings -> numeric address (getaddrinfo stand-in)

    # -- transports ----------------------------------------------------------------------------
    def register(self, tr) -> int:
        tid = len(self.transports)
        self.transports.append(tr)
        self.open.add(tid)
        self.max_open = max(self.max_open, len(self.open))
        self.events.append((tr._vloop.vtime, "open", tid))
        return tid

    def closed(self, tr, how):
        self.open.discard(tr.tid)
        self.events.append((tr._vloop.vtime, how, tr.tid))

    def next_connect_outcome(self):
        if self.connect_script:
            return self.connect_script.pop(0)
        return "ok"

    # -- transmissions ---------------------------------------------------------------------------
    def transmitted(self, tr, data: bytes):
        """Called from inside sendto()/write(). Returns an OSError to fail the send, or None."""
        t = tr._vloop.vtime
        index = len(self.tx)
        entry = [t, tr.tid, data, False]
        self.tx.append(entry)
        if self.peer is None:
            return None
        if tr._vloop.is_closed():
            # the socket still exists, so the datagram leaves; but nobody will ever read the answer because the
            # reader was registered with the selector of the loop that is gone
            self.events.append((t, "tx-on-dead-loop", tr.tid))
            return None
        err = self.peer.on_transmission(self, tr, index, data)
        if err is not None:
            entry[3] = True
        return err

    def deliver_later(self, tr, delay: float, index: int, data: bytes):
        loop = tr._vloop
        token = object()
        self.in_flight[token] = (tr.tid, "data", index)

        def _do():
            self.in_flight.pop(token, None)
            ok = tr.peer_deliver(data)
            self.deliveries.append((loop.vtime, tr.tid, index, data, ok, len(self.tx) - 1))
        self._at(loop, delay, _do)

    def call_later(self, tr, delay: float, fn, *args):
        token = object()
        self.in_flight[token] = (tr.tid, "event", None)

        def _do():
            self.in_flight.pop(token, None)
            fn(*args)
        self._at(tr._vloop, delay, _do)

    def _at(self, loop, delay, fn):
        """Peer events scheduled for the same instant happen in the order they were scheduled (asyncio's timer heap
        is not FIFO for equal deadlines; a network path does not reorder two datagrams sent back to back)."""
        when = loop.vtime + delay
        key = (id(loop), when)
        bucket = self._buckets.get(key)
        if bucket is None:
            bucket = self._buckets[key] = []

            def _run():
                self._buckets.pop(key, None)
                for f in list(bucket):
                    f()
            loop.call_at(when, _run)
        bucket.append(fn)


# ---------------------------------------------------------------------------------------------
# scripted peer
# ---------------------------------------------------------------------------------------------
ERRNOS = {"ECONNREFUSED": _errno.ECONNREFUSED, "ENETUNREACH": _errno.ENETUNREACH,
          "EHOSTUNREACH": _errno.EHOSTUNREACH, "ECONNRESET": _errno.ECONNRESET, "EPERM": _errno.EPERM,
          "EPIPE": _errno.EPIPE}


def make_oserror(name: str) -> OSError:
    code = ERRNOS[name]
    return OSError(code, os.strerror(code))  # maps to ConnectionRefusedError etc. automatically


class ScriptedPeer:
    """Executes one action per transmission.

    Actions (tuples):
      ("drop",)                        no answer
      ("answer", d)                    valid answer after delay d
      ("raw", d, bytes)                arbitrary bytes after d
      ("multi", [(d, bytes), ...])     several arbitrary deliveries for this transmission
      ("garbage", d) / ("short", d)    invalid bytes (long enough to pass the length gate / shorter than a header)
      ("bad", d)                       valid answer with a corrupted checksum (TCP: corrupted byte count)
      ("exc", d, code)                 Modbus exception frame
      ("frag", cut, d1, d2)            valid answer in two pieces
      ("lone", cut, d)                 only the first piece
      ("dup", d1, d2)                  valid answer twice
      ("eof", d)                       TCP: peer closes (FIN);  UDP: treated as drop
      ("reset", d, errname)            TCP: connection reset;   UDP: error_received(errname) after d
      ("senderr", errname)             the send itself fails with OSError
      ("recverr", d, errname)          UDP: error_received after d;  TCP: connection reset with errname
    """

    def __init__(self, responder, script=None, default=("drop",)):
        self.responder = responder
        self.script = list(script or [])
        self.default = default
        self.pos = 0
        self.history = []  # (index, action)

    def set_script(self, script, default=None):
        self.script = list(script)
        self.pos = 0
        if default is not None:
            self.default = default

    def next_action(self):
        if self.pos < len(self.script):
            a = self.script[self.pos]
        else:
            a = self.default
        self.pos += 1
        return a

    def on_transmission(self, world: World, tr, index: int, data: bytes):
        try:
            return self._on_transmission(world, tr, index, data)
        except BaseException as ex:     # a bug in a responder / peer script must never pass for behaviour of the library
            world.harness_errors.append(ex)
            raise

    def _on_transmission(self, world: World, tr, index: int, data: bytes):
        a = self.next_action()
        self.history.append((index, a))
        if a[0] == "combo":  # several effects for one transmission, e.g. an answer followed by a late ICMP error
            err = None
            for sub in a[1]:
                e = self._do(world, tr, index, data, sub)
                err = err or e
            return err
        return self._do(world, tr, index, data, a)

    def _do(self, world: World, tr, index: int, data: bytes, a):
        kind = a[0]
        r = self.responder
        if kind == "drop":
            return None
        if kind == "senderr":
            return make_oserror(a[1])
        if kind == "answer":
            resp = r.respond(data)
            if resp is not None:
                world.deliver_later(tr, a[1], index, resp)
        elif kind == "raw":
            world.deliver_later(tr, a[1], index, a[2])
        elif kind == "multi":
            for d, piece in a[1]:
                world.deliver_later(tr, d, index, piece)
        elif kind == "garbage":
            world.deliver_later(tr, a[1], index, r.garbage(data))
        elif kind == "short":
            world.deliver_later(tr, a[1], index, r.garbage(data)[:3])
        elif kind == "bad":
            resp = r.respond(data)
            if resp is not None:
                world.deliver_later(tr, a[1], index, r.corrupt(resp))
        elif kind == "exc":
            world.deliver_later(tr, a[1], index, r.exception(data, a[2]))
        elif kind == "frag":
            resp = r.respond(data)
            if resp is not None:
                cut = max(1, min(len(resp) - 1, a[1]))
                world.deliver_later(tr, a[2], index, resp[:cut])
                world.deliver_later(tr, a[3], index, resp[cut:])
        elif kind == "pieces":  # arbitrary sequence of pieces of the valid answer: ("head", cut, d) | ("tail", cut, d) | ("full", d) | ("garbage", d)
            resp = r.respond(data)
            if resp is not None:
                for p in a[1]:
                    if p[0] == "head":
                        world.deliver_later(tr, p[2], index, resp[:max(1, min(len(resp) - 1, p[1]))])
                    elif p[0] == "tail":
                        world.deliver_later(tr, p[2], index, resp[max(1, min(len(resp) - 1, p[1])):])
                    elif p[0] == "full":
                        world.deliver_later(tr, p[1], index, resp)
                    else:
                        world.deliver_later(tr, p[1], index, r.garbage(data))
        elif kind == "frag_then_full":  # first fragment, then the complete frame again (inverter re-sends the whole answer)
            resp = r.respond(data)
            if resp is not None:
                cut = max(1, min(len(resp) - 1, a[1]))
                world.deliver_later(tr, a[2], index, resp[:cut])
                world.deliver_later(tr, a[3], index, resp)
        elif kind == "lone":
            resp = r.respond(data)
            if resp is not None:
                cut = max(1, min(len(resp) - 1, a[1]))
                world.deliver_later(tr, a[2], index, resp[:cut])
        elif kind == "dup":
            resp = r.respond(data)
            if resp is not None:
                world.deliver_later(tr, a[1], index, resp)
                world.deliver_later(tr, a[2], index, resp)
        elif kind == "eof":
            if tr.kind == "tcp":
                world.call_later(tr, a[1], tr.peer_eof)
        elif kind in ("reset", "recverr"):
            exc = make_oserror(a[2])
            if tr.kind == "tcp":
                world.call_later(tr, a[1], tr.peer_reset, exc)
            else:
                world.call_later(tr, a[1], tr.peer_error, exc)
        else:
            raise ValueError("unknown action %r" % (a,))
        return None


# ---------------------------------------------------------------------------------------------
# minimal responders (frame level); simulators in siminv.py implement the same interface
# ---------------------------------------------------------------------------------------------
class RtuResponder:
    """Answers GoodWe-RTU requests. payload_fn(op) -> bytes for reads."""
    framing = "rtu"

    def __init__(self, payload_fn=None):
        self.payload_fn = payload_fn or (lambda op: bytes((op["reg"] + i) & 0xFF for i in range(2 * op["count"])))
        self.bad_requests = []

    def respond(self, data):
        try:
            op = rw.parse_rtu_request(data)
        except rw.ParseError as ex:
            self.bad_requests.append((data, str(ex)))
            return None
        if op["kind"] == "read":
            return rw.rtu_read_response(op["addr"], self.payload_fn(op))
        if op["kind"] == "write":
            return rw.rtu_write_response(op["addr"], op["reg"], op["word"])
        return rw.rtu_write_multi_response(op["addr"], op["reg"], len(op["data"]) // 2)

    def exception(self, data, code):
        return rw.rtu_exception_response(data[0], data[1], code)

    def corrupt(self, resp):
        return resp[:-1] + bytes((resp[-1] ^ 0x01,))

    def garbage(self, data):
        return b"\xaa\x55" + bytes((data[0], 0x55)) + b"garbage!" + b"\x00\x00"


class TcpResponder:
    framing = "tcp"

    def __init__(self, payload_fn=None):
        self.payload_fn = payload_fn or (lambda op: bytes((op["reg"] + i) & 0xFF for i in range(2 * op["count"])))
        self.bad_requests = []

    def respond(self, data):
        try:
            tx, op = rw.parse_tcp_request(data)
        except rw.ParseError as ex:
            self.bad_requests.append((data, str(ex)))
            return None
        if op["kind"] == "read":
            return rw.tcp_read_response(tx, op["addr"], self.payload_fn(op))
        if op["kind"] == "write":
            return rw.tcp_write_response(tx, op["addr"], op["reg"], op["word"])
        return rw.tcp_write_multi_response(tx, op["addr"], op["reg"], len(op["data"]) // 2)

    def exception(self, data, code):
        return rw.tcp_exception_response(rw.be16(data, 0), data[6], data[7], code)

    def corrupt(self, resp):
        # no checksum on Modbus/TCP: corrupt the byte count / echoed register so that the frame is refused
        b = bytearray(resp)
        b[8] ^= 0x01
        return bytes(b)

    def garbage(self, data):
        return data[:6] + bytes((data[6], 0x03, 0x01)) + b"g"  # read answer with an impossible (odd) byte count


class Aa55Responder:
    """Answers AA55 requests with response type = command | 0x80 and payload_fn(cmd, payload)."""
    framing = "aa55"

    def __init__(self, payload_fn=None):
        self.payload_fn = payload_fn or (lambda cmd, payload: bytes(range(16)))
        self.bad_requests = []

    def respond(self, data):
        try:
            cmd, payload = rw.parse_aa55_request(data)
        except rw.ParseError as ex:
            self.bad_requests.append((data, str(ex)))
            return None
        return rw.aa55_response(bytes((cmd[0], cmd[1] | 0x80)), self.payload_fn(cmd, payload))

    def exception(self, data, code):
        # AA55 has no exception frames; an unexpected response type is the closest thing
        return rw.aa55_response(b"\x01\xff", bytes((code,)))

    def corrupt(self, resp):
        return resp[:-1] + bytes((resp[-1] ^ 0x01,))

    def garbage(self, data):
        return rw.AA55_RSP_HDR + data[4:5] + bytes((data[5] | 0x80,)) + b"\x04garb\x00\x01"  # right size, wrong checksum


class MultiPeer:
    """Several independent peers behind one World, selected by the remote host of the transport."""

    def __init__(self, peers: dict):
        self.peers = peers

    def on_transmission(self, world, tr, index, data):
        return self.peers[tr._addr[0]].on_transmission(world, tr, index, data)
