"""Overlapping callers on ONE protocol / inverter object, as a dimension shared by the transport-level checks.

A scenario = (transport, keep-alive, retries, bare protocol | inverter object (with a streak of failed requests before),
2..4 callers with different operations and start offsets, one scripted action per transmission in the order the peer sees
them).  The peer answers what it receives, so every answer belongs to the operation that was really on the wire.

`run(case)` executes it on the virtual-clock loop; `judge(obs, invariants)` applies invariants that follow from the listed
properties for the situations in which they leave no freedom:

  answered   (C02, C07)  a transmission whose only peer reaction is one complete valid answer (in one piece, or head + exact
                         remainder), in time, with nothing else arriving meanwhile: its caller gets exactly those bytes and the
                         operation is not transmitted again
  rejected   (C08)       ... whose only reaction is an exception frame: its caller gets RequestRejectedException(reason), the
                         operation is not transmitted again, and (where no close under the lock is due, D18) at that moment
  valid      (C01, C06)  every delivered result satisfies the necessary conditions of ITS OWN operation and consists of bytes the
                         peer sent
  terminates (C04)       every caller ends, with a response or a documented exception
  serial     (C06)       nothing is transmitted while an earlier transmission is still waiting for its clean in-time answer
  budget     (C04, C05)  a caller none of whose transmissions is answered, while every other caller is answered at once and has
                         been served before its first time-out: exactly retries+1 transmissions of its operation

(Retry budgets of several SIMULTANEOUSLY failing callers are not judged: the properties speak about a request's own faults,
and the library keeps one retry counter per connection.)
"""
from __future__ import annotations

from . import netcase, refwire as rw

EPS = 1e-9
T = 1.0
SPECS = {
    "udp": [("read", 35100, 4), ("read", 36000, 45), ("write", 47510, -5), ("read", 35200, 7), ("write_multi", 47547, bytes(range(12)))],
    "tcp": [("read", 35100, 4), ("read", 36000, 45), ("write", 47510, -5), ("read", 35200, 7), ("write_multi", 47547, bytes(range(12)))],
    "aa55": [("aa55", "010600", "0186"), ("aa55", "010200", "0182"), ("aa55", "010900", "0189"), ("aa55read", 0x701, 8)],
}
HDR = {"udp": 5, "tcp": 9, "aa55": 9}
VERBATIM = {1: "ILLEGAL FUNCTION", 2: "ILLEGAL DATA ADDRESS", 3: "ILLEGAL DATA VALUE"}


def _op_key(transport, data):
    if transport == "aa55":
        return bytes(data)
    if transport == "tcp":
        return repr(sorted(rw.parse_tcp_request(data)[1].items()))
    return repr(sorted(rw.parse_rtu_request(data).items()))


def _necessary(transport, spec, x):
    if transport == "aa55":
        return rw.necessary_aa55(b"\x01\x9a" if spec[0] == "aa55read" else bytes.fromhex(spec[2]), x)
    kind, reg, arg = spec
    op = rw.op_read(0xF7, reg, arg) if kind == "read" else (rw.op_write(0xF7, reg, arg) if kind == "write" else rw.op_write_multi(0xF7, reg, arg))
    return rw.necessary_rtu(op, x) if transport == "udp" else rw.necessary_tcp(op, x)


class Obs:
    pass


def run(case):
    import asyncio
    from .vloop import ScriptedPeer, VLoop, World
    transport, keep, R, api = case["transport"], case["keep"], case["R"], case.get("api", False)
    streak = case.get("streak", 0) if api else 0
    script = [["drop"]] * (streak * (R + 1)) + [list(a) for a in case["script"]]
    default = netcase.to_actions([case.get("default", ["answer", 2])], T)[0]
    peer = ScriptedPeer(netcase.make_responder(transport), netcase.to_actions(script, T), default=default)
    world = World(peer)
    loop = VLoop(world, max_time=1e5)
    protocol, execute = netcase.make_endpoint(transport, T, R, keep, api)
    specs = [tuple(c["spec"]) if not isinstance(c["spec"], tuple) else c["spec"] for c in case["callers"]]
    specs = [tuple(bytes(x) if isinstance(x, (bytes, bytearray)) else x for x in s) for s in specs]
    out = {}
    state = {"t0": 0.0, "tx0": 0}

    async def caller(i):
        await asyncio.sleep(netcase.secs(case["callers"][i]["start"], T) + i * 1e-6)
        cmd = netcase.make_command(transport, protocol, specs[i])
        t0 = loop.vtime
        try:
            res = await execute(cmd)
            out[i] = ("ok", res.raw_data, None, t0, loop.vtime)
        except Exception as ex:
            out[i] = (type(ex).__name__, None, getattr(ex, "message", None), t0, loop.vtime)

    async def main():
        for _ in range(streak):      # earlier failed requests through the inverter object (consecutive-failure streak)
            try:
                await execute(netcase.make_command(transport, protocol, specs[0]))
            except Exception:
                pass
        state["t0"] = loop.vtime
        state["tx0"] = len(world.tx)
        await asyncio.gather(*[caller(i) for i in range(len(specs))])

    res = loop.run(main())
    loop.idle()
    loop.shutdown()
    o = Obs()
    o.case, o.hang, o.exc = case, res.hang, res.exc
    o.out, o.specs, o.world, o.tx0 = out, specs, world, state["tx0"]
    o.history = list(peer.history)
    return o


def judge(o, invariants, prop):
    case = o.case
    transport, keep, R = case["transport"], case["keep"], case["R"]
    fails = []
    key = lambda what: "%s|%s|overlap|%s" % (prop, transport, what)
    if o.hang is not None or o.exc is not None:
        if "terminates" in invariants:
            fails.append((key("hang"), "overlapping callers never all complete: %r %r" % (o.hang, o.exc), case))
        return fails
    world = o.world
    ncall = len(o.specs)
    # attribute transmissions to callers by the operation they carry
    ref_keys = []
    for s in o.specs:
        # the request bytes of a fresh command object of that spec, parsed by the reference
        proto = netcase.make_protocol(transport, T, R, keep)
        ref_keys.append(_op_key(transport, netcase.make_command(transport, proto, s).request_bytes()))
    txs = []
    for idx in range(o.tx0, len(world.tx)):
        t, tid, data, failed = world.tx[idx]
        try:
            k = _op_key(transport, data)
        except rw.ParseError:
            k = None
        owner = ref_keys.index(k) if k in ref_keys else None
        act = next((a for (i, a) in o.history if i == idx), None)
        txs.append({"idx": idx, "t": t, "tid": tid, "data": data, "failed": failed, "owner": owner, "act": act})
    by_idx = {x["idx"]: x for x in txs}
    deliveries = [d for d in world.deliveries if d[2] >= o.tx0]
    for x in txs:
        x["deliv"] = sorted([d for d in deliveries if d[2] == x["idx"]], key=lambda d: d[0])
    events = sorted([(d[0], "delivery", d[2]) for d in deliveries] + [(e[0], e[1], None) for e in world.peer_events])

    def quiet(x, t_to):
        """nothing else reaches the client between the transmission and t_to (other deliveries, peer-caused closes/errors)"""
        for (t, kind, idx) in events:
            if kind == "delivery":
                if idx != x["idx"] and x["t"] - EPS <= t <= t_to + EPS:
                    return False
            elif x["t"] + EPS < t <= t_to + EPS:      # (a peer-caused close at the very instant of the transmission is what caused it)
                return False
        return True

    def later_tx_of(owner, after_idx):
        return [y for y in txs if y["owner"] == owner and y["idx"] > after_idx]

    close_serialised = transport == "tcp" and not keep      # D18
    for x in txs:
        a = x["act"]
        if x["owner"] is None or a is None or x["failed"]:
            continue
        c = x["owner"]
        outcome = o.out.get(c)
        if outcome is None:
            continue
        # --- clean answer --------------------------------------------------------------------------------------
        clean = None
        # (a delivery counts even if it found the socket closed: within the time-out of a transmission nothing entitles the library to close it)
        if a[0] == "answer" and a[1] < T - EPS and len(x["deliv"]) == 1:
            clean = (x["deliv"][0][0], x["deliv"][0][3])
        elif a[0] == "frag" and len(x["deliv"]) == 2 and a[2] <= a[3] < T - EPS \
                and len(x["deliv"][0][3]) >= HDR[transport] and o.specs[c][0] in ("read", "aa55", "aa55read"):     # C07 speaks of split READ responses
            clean = (x["deliv"][1][0], x["deliv"][0][3] + x["deliv"][1][3])
        if clean is not None and "answered" in invariants and quiet(x, clean[0]) and _necessary(transport, o.specs[c], clean[1]) is None:
            kind, raw, msg, t0, t_end = outcome
            again = later_tx_of(c, x["idx"])
            if kind != "ok":
                fails.append((key("valid-answer-not-accepted"), "caller %d (%r): transmission %d got a complete valid answer after %.4f s and nothing else, the call ended with %s" % (
                    c, o.specs[c], x["idx"] - o.tx0, clean[0] - x["t"], kind), case))
            elif raw != clean[1]:
                fails.append((key("result-is-not-the-answer"), "caller %d (%r) was handed %s, its transmission was answered %s" % (c, o.specs[c], raw.hex()[:60], clean[1].hex()[:60]), case))
            elif again:
                fails.append((key("retransmitted-after-valid-answer"), "caller %d (%r): transmission %d was validly answered in time, the operation was transmitted again %d time(s)" % (
                    c, o.specs[c], x["idx"] - o.tx0, len(again)), case))
        if clean is not None and "serial" in invariants:
            early = [y for y in txs if y["idx"] > x["idx"] and y["t"] < clean[0] - EPS]
            if early and quiet(x, early[0]["t"]):
                fails.append((key("transmitted-while-waiting"), "transmission %d (caller %s) went out at +%.4f s while transmission %d (caller %d) was still waiting for its "
                              "answer, which arrived in time at +%.4f s" % (early[0]["idx"] - o.tx0, early[0]["owner"], early[0]["t"], x["idx"] - o.tx0, c, clean[0]), case))
        # --- clean exception frame -----------------------------------------------------------------------------
        if a[0] == "exc" and a[1] < T - EPS and len(x["deliv"]) == 1 and "rejected" in invariants and transport != "aa55" \
                and quiet(x, x["deliv"][0][0]):
            kind, raw, msg, t0, t_end = outcome
            code = a[2]
            again = later_tx_of(c, x["idx"])
            if kind != "RequestRejectedException":
                fails.append((key("exception-frame-not-rejected"), "caller %d (%r): transmission %d was answered by exception code %d, the call ended with %s" % (
                    c, o.specs[c], x["idx"] - o.tx0, code, kind), case))
            else:
                if code in VERBATIM and msg != VERBATIM[code]:
                    fails.append((key("reason"), "code %d surfaced as %r" % (code, msg), case))
                if again:
                    fails.append((key("retransmitted-after-exception-frame"), "caller %d (%r): the operation was transmitted %d more time(s) after its exception answer" % (
                        c, o.specs[c], len(again)), case))
                elif not close_serialised and t_end > x["deliv"][0][0] + EPS:
                    fails.append((key("rejection-delayed"), "caller %d: exception frame received at +%.4f s, the rejection surfaced at +%.4f s" % (c, x["deliv"][0][0], t_end), case))
    for c in range(ncall):
        outcome = o.out.get(c)
        if outcome is None:
            if "terminates" in invariants:
                fails.append((key("caller-did-not-end"), "caller %d never ended" % c, case))
            continue
        kind, raw, msg, t0, t_end = outcome
        if "terminates" in invariants and kind not in ("ok", "RequestRejectedException", "RequestFailedException", "MaxRetriesException"):
            fails.append((key("outcome-type|%s" % kind), "caller %d ended with %s" % (c, kind), case))
        if kind == "ok" and "valid" in invariants:
            why = _necessary(transport, o.specs[c], raw)
            if why is not None:
                fails.append((key("foreign-answer"), "caller %d (%r) was handed %s: %s" % (c, o.specs[c], raw.hex()[:60], why), case))
            elif not any(d[3] == raw for d in deliveries) and not any(p[3] + q[3] == raw for p in deliveries for q in deliveries):
                fails.append((key("result-not-from-the-peer"), "caller %d was handed bytes the peer never sent" % c, case))
    if "budget" in invariants:
        for c in range(ncall):
            mine = [x for x in txs if x["owner"] == c]
            others = [x for x in txs if x["owner"] != c]
            if not mine or any(x["act"] is None or x["act"][0] != "drop" for x in mine) or any(x["owner"] is None for x in others):
                continue
            first_timeout = mine[0]["t"] + T
            ok_others = all(x["act"] is not None and x["act"][0] == "answer" and x["act"][1] < T / 4 and x["t"] + x["act"][1] < first_timeout - EPS for x in others) \
                and all(len([x for x in others if x["owner"] == d]) == 1 for d in range(ncall) if d != c) and not world.peer_events
            if ok_others and len(mine) != R + 1:
                fails.append((key("budget"), "caller %d (%r) is never answered while all other callers are answered at once before its first time-out: "
                              "%d transmissions of its operation at %s, retries=%d" % (c, o.specs[c], len(mine), [round(x["t"], 4) for x in mine], R), case))
    seen, outl = set(), []
    for f in fails:
        if f[0] not in seen:
            seen.add(f[0])
            outl.append(f)
    return outl


def hyp_job(job):
    """job = (property id, invariants (tuple), seed, examples)"""
    from hypothesis import strategies as st
    from . import harness
    from .harness import Acc
    prop, invariants, seed, n = job
    acc = Acc()
    t_in = st.integers(0, 15)
    t_any = st.one_of(t_in, t_in, st.integers(17, 30))

    def action(transport):
        closes = st.tuples(st.just("eof"), t_in) if transport == "tcp" else st.tuples(st.just("recverr"), t_in, st.just("ECONNREFUSED"))
        return st.one_of(
            st.tuples(st.just("answer"), t_in), st.tuples(st.just("answer"), t_in), st.tuples(st.just("answer"), t_any), st.just(("drop",)), st.just(("drop",)),
            st.tuples(st.just("exc"), t_in, st.sampled_from((1, 2, 3, 4, 6, 11))), st.tuples(st.just("frag"), st.integers(5, 14), t_in, t_in).map(
                lambda f: (f[0], f[1], min(f[2], f[3]), max(f[2], f[3]))),
            st.tuples(st.just("garbage"), t_in), st.tuples(st.just("bad"), t_in), st.tuples(st.just("lone"), st.integers(5, 12), t_in),
            closes, st.tuples(st.just("dup"), t_in, t_any)).map(list)

    @st.composite
    def cases(draw):
        transport = draw(st.sampled_from(("udp", "tcp", "aa55")))
        ncall = draw(st.integers(2, min(4, len(SPECS[transport]))))
        order = draw(st.permutations(range(len(SPECS[transport]))))[:ncall]
        api = draw(st.booleans())
        return {"overlap": True, "transport": transport, "keep": draw(st.booleans()), "R": draw(st.integers(0, 3)), "api": api,
                "streak": draw(st.integers(0, 2)) if api else 0,
                "callers": [{"spec": list(SPECS[transport][k]), "start": draw(st.sampled_from((0, 0, 1, 2, 3, 5, 8, 13, 18, 24)))} for k in order],
                "script": draw(st.lists(action(transport), max_size=7))}

    def body(case):
        acc.case()
        acc.nontrivial("overlap", repr(case))
        for a in case["script"]:
            acc.cls("overlap|action|" + a[0])
        if len(acc.samples) < 2:
            acc.sample(case)
        return judge(run(case), invariants, prop)

    harness.hyp_search(acc, body, [cases()], seed=seed, max_examples=n)
    return acc


def enum_job(job):
    """Small exhaustive grid: two callers, start offsets, the first two transmissions from a palette."""
    from .harness import Acc
    prop, invariants, transport, keep, api = job
    acc = Acc()
    lost = ["eof", 3] if transport == "tcp" else ["recverr", 3, "ECONNREFUSED"]
    pal = [["answer", 2], ["answer", 14], ["drop"], ["exc", 3, 2], ["exc", 9, 6], ["frag", 9, 2, 6], ["garbage", 3], lost, ["lone", 9, 3], ["answer", 20]]
    specs = SPECS[transport]
    for R in (0, 2):
        for a0 in pal:
            for a1 in pal:
                for starts in ((0, 0), (0, 1), (0, 5), (0, 12)):
                    for streak in ((0, 1) if api else (0,)):
                        for pair in ((0, 1), (2, 0)) if transport != "aa55" else ((0, 1), (3, 0)):      # (3: the Aa55ReadCommand class)
                            case = {"overlap": True, "transport": transport, "keep": keep, "R": R, "api": api, "streak": streak,
                                    "callers": [{"spec": list(specs[pair[0]]), "start": starts[0]}, {"spec": list(specs[pair[1]]), "start": starts[1]}],
                                    "script": [a0, a1]}
                            acc.case()
                            acc.nontrivial("overlap-enum", repr(case))
                            for key, msg, c in judge(run(case), invariants, prop):
                                acc.fail(key, msg, c)
    # ties: the LATE answer to the first caller's first transmission reaches the client at the very instant at which something
    # else arrives for the transmission that is pending by then (head of a fragmented answer, lone fragment, garbage, exception
    # frame) - both are handled in the same loop iteration, the third transmission is lost / answered
    for L in (17, 18, 20, 21, 24):
        d = L - 16
        for a1 in (["frag", 9, d, 6], ["lone", 9, d], ["garbage", d], ["exc", d, 2], ["frag", 9, d, d]):
            for a2 in (["drop"], ["answer", 2], ["answer", 14]):
                for pair in ((0, 1), (2, 0)) if transport != "aa55" else ((0, 1), (3, 0)):
                    case = {"overlap": True, "transport": transport, "keep": keep, "R": 2, "api": api, "streak": 0,
                            "callers": [{"spec": list(specs[pair[0]]), "start": 0}, {"spec": list(specs[pair[1]]), "start": 0}],
                            "script": [["answer", L], a1, a2]}
                    acc.case()
                    acc.nontrivial("overlap-ties", repr(case))
                    for key, msg, c in judge(run(case), invariants, prop):
                        acc.fail(key, msg, c)
    if "budget" in invariants:
        # one caller is never answered, the others are answered at once: the silent one makes exactly retries+1 transmissions
        for R in (1, 2, 3):
            for n_others in (1, 2, 3):
                if n_others + 1 > len(specs):
                    continue
                for s_silent in (0, 1, 5, 12, 15):
                    for s_others in (0, 2):
                        for silent_first in (True, False):
                            order = [0] + list(range(1, n_others + 1)) if silent_first else list(range(1, n_others + 1)) + [0]
                            callers = [{"spec": list(specs[k]), "start": (s_silent if k == 0 else s_others)} for k in order]
                            # transmissions reach the peer in time order: the silent caller's are dropped, the others answered at once
                            n_before = 0 if (s_silent < s_others or (s_silent == s_others and silent_first)) else n_others
                            script = [["answer", 1]] * n_before + [["drop"]] + [["answer", 1]] * (n_others - n_before)
                            case = {"overlap": True, "transport": transport, "keep": keep, "R": R, "api": api, "streak": 0, "callers": callers,
                                    "script": script, "default": ["drop"]}
                            acc.case()
                            acc.nontrivial("overlap-budget", repr(case))
                            for key, msg, c in judge(run(case), invariants, prop):
                                acc.fail(key, msg, c)
    acc.sample(case)
    return acc


INVARIANTS = {"C01": ("valid",), "C02": ("answered",), "C04": ("terminates", "budget"), "C05": ("budget",), "C06": ("serial", "valid"),
              "C07": ("answered",), "C08": ("rejected",)}


def register(ctx, prop):
    """Add the overlapping-callers engines to a check's run()."""
    inv = INVARIANTS[prop]
    ctx.shard(enum_job, [(prop, inv, t, k, a) for t in ("udp", "tcp", "aa55") for k in (False, True) for a in (False, True)],
              "overlapping callers on one protocol / inverter object (vlib/concur.py): two callers x start offsets x a 10-action palette for the first two "
              "transmissions%s; invariants %s" % ("; one silent caller among answered ones" if "budget" in inv else "", "+".join(inv)))
    n = ctx.pick(960, 16000)
    ctx.shard(hyp_job, [(prop, inv, ctx.seed * 1000 + 500 + i, n // 16) for i in range(16)],
              "hypothesis: 2-4 overlapping callers, free scripts / offsets / retries, bare protocol or inverter object with a failure streak; invariants %s" % "+".join(inv))


def replay(acc, case, invariants, prop):
    case = dict(case)
    for c in case["callers"]:
        c["spec"] = [bytes(x) if isinstance(x, (bytes, bytearray)) else x for x in c["spec"]]
    for key, msg, c in judge(run(case), invariants, prop):
        acc.fail(key, msg, c)
