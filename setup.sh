#!/bin/sh
# Offline setup: hypothesis into /venv (if missing), jsonschema + atheris into /verif/.deps
set -u
cd "$(dirname "$0")"
WH=/opt/veriftools/wheels
/venv/bin/python -c "import hypothesis" 2>/dev/null || /venv/bin/pip install -q --no-index --find-links $WH hypothesis
mkdir -p .deps
PYTHONPATH=.deps /venv/bin/python -c "import jsonschema" 2>/dev/null || /venv/bin/pip install -q --no-index --find-links $WH --target .deps jsonschema || true
PYTHONPATH=.deps /venv/bin/python -c "import atheris" 2>/dev/null || /venv/bin/pip install -q --no-index --find-links $WH --target .deps atheris || true
/venv/bin/python -c "import hypothesis; print('hypothesis', hypothesis.__version__)"
PYTHONPATH=.deps /venv/bin/python -c "import atheris; print('atheris ok')" || echo "atheris unavailable (atheris stages will be skipped)"
exit 0
