"""C01 - only validated response frames are ever delivered as results."""
from __future__ import annotations

from vlib import harness, netcase, refwire as rw
from vlib.harness import Acc
from checks.c02 import conforming, make_command, _payload

LEVEL = "exploration"
RULE = ("case = (framing, command, byte string x); for each generated command a valid answer F is built by the reference codec "
        "and x ranges over EVERY truncation of F, EVERY single-bit flip of F, all 256 substitutions at each header / length / "
        "echo / checksum position, slices inserted / deleted / duplicated, F with trailing junk, answers to a different request "
        "(other register / count / value / function / framing), exception frames, and Hypothesis-generated random mutations and "
        "random bytes (plus an atheris coverage-guided stage in the thorough tier). A sample of cases is also served end-to-end "
        "by the scripted peer. Non-trivial = x != F and len(x) >= minimal header length of the framing; distinct by "
        "(framing, command, x).")
ASSUMPTIONS = [
    "acceptance oracle N = exactly the conditions C01 enumerates (function code, byte count == 2 x count, length >= announced, "
    "echoed register/value, CRC-16 resp. additive checksum); the AA55 marker and comm address of RTU answers and the Modbus/TCP "
    "transaction/protocol/length fields are not part of N (DESIGN.md D1)",
    "reference codec vlib/refwire.py",
]
MIN_HEADER = {"rtu": 5, "tcp": 9, "aa55": 9}
DOCUMENTED = ("PartialResponseException", "RequestRejectedException")


def op_of(framing, kind, addr, reg, arg):
    if kind == "read":
        return rw.op_read(addr, reg, arg)
    if kind == "write":
        return rw.op_write(addr, reg, arg)
    return rw.op_write_multi(addr, reg, arg)


def necessary(framing, kind, addr, reg, arg, x):
    if framing == "rtu":
        return rw.necessary_rtu(op_of(framing, kind, addr, reg, arg), x)
    if framing == "tcp":
        return rw.necessary_tcp(op_of(framing, kind, addr, reg, arg), x)
    if kind == "read":
        rtype = b"\x01\x9a"
    elif kind in ("write", "write_multi"):
        rtype = b"\x02\xb9"
    else:
        rtype = bytes.fromhex(kind[1])
    return rw.necessary_aa55(rtype, x)


class CmdCtx:
    """A command under test with its valid frame."""
    def __init__(self, framing, kind, addr, reg, arg, payload):
        self.framing, self.kind, self.addr, self.reg, self.arg = framing, kind, addr, reg, arg
        self.cmd = make_command(framing, kind, addr, reg, arg)
        self.F, _ = conforming(framing, kind, addr, reg, arg, payload)
        self.payload = payload

    def desc(self):
        return {"framing": self.framing, "kind": list(self.kind) if isinstance(self.kind, tuple) else self.kind,
                "addr": self.addr, "reg": self.reg, "arg": self.arg, "payload": self.payload}


def judge(acc: Acc, cc: CmdCtx, x: bytes, how: str, counted=False):
    acc.case()
    nt = x != cc.F and len(x) >= MIN_HEADER[cc.framing]
    if nt:
        if counted:
            acc.nontrivial_counted()
        else:
            acc.nontrivial(cc.framing, repr(cc.kind), cc.addr, cc.reg, repr(cc.arg), x)
    kname = cc.kind if isinstance(cc.kind, str) else "fixed"
    case = dict(cc.desc(), x=x, how=how)
    try:
        r = cc.cmd.validator(x)
    except Exception as ex:
        name = type(ex).__name__
        if name == "PartialResponseException":
            acc.cls("%s|partial" % cc.framing)
            if not (ex.length == len(x) and ex.length < ex.expected):
                return acc.fail("C01|%s|partial-inconsistent" % cc.framing,
                                "PartialResponseException(length=%r, expected=%r) for %d bytes" % (ex.length, ex.expected, len(x)), case)
            return False
        if name == "RequestRejectedException":
            acc.cls("%s|rejected" % cc.framing)
            return False
        return acc.fail("C01|%s|%s|validator-raised|%s" % (cc.framing, kname, name),
                        "validator raised %r on %s" % (ex, x.hex()[:80]), case)
    if r is True:
        acc.cls("%s|accepted" % cc.framing)
        why = necessary(cc.framing, cc.kind, cc.addr, cc.reg, cc.arg, x)
        if why is not None:
            return acc.fail("C01|%s|%s|accepted-invalid|%s" % (cc.framing, kname, why.split(" ")[0] + "-" + how.split(":")[0]),
                            "validator accepted %s (%s): %s" % (x.hex()[:100], how, why), case)
        return False
    if r is False:
        acc.cls("%s|refused" % cc.framing)
        return False
    return acc.fail("C01|%s|%s|validator-returned|%s" % (cc.framing, kname, type(r).__name__), "validator returned %r" % (r,), case)


HEADER_POS = {"rtu": lambda F: list(range(0, min(8, len(F)))) + [len(F) - 2, len(F) - 1],
              "tcp": lambda F: list(range(0, min(12, len(F)))),
              "aa55": lambda F: list(range(0, 7)) + [len(F) - 2, len(F) - 1]}


def structured(acc: Acc, cc: CmdCtx, others):
    F = cc.F
    for k in range(len(F) + 1):
        judge(acc, cc, F[:k], "truncate:%d" % k, counted=True)
    b = bytearray(F)
    for i in range(len(F)):
        for bit in range(8):
            b[i] ^= 1 << bit
            judge(acc, cc, bytes(b), "bitflip:%d.%d" % (i, bit), counted=True)
            b[i] ^= 1 << bit
    for i in sorted(set(p for p in HEADER_POS[cc.framing](F) if 0 <= p < len(F))):
        orig = b[i]
        for v in range(256):
            if v != orig:
                b[i] = v
                judge(acc, cc, bytes(b), "subst:%d" % i, counted=True)
        b[i] = orig
    for i in range(len(F) - 1):   # adjacent bytes transposed (e.g. checksum bytes in the wrong order, swapped register bytes)
        if F[i] != F[i + 1]:
            judge(acc, cc, F[:i] + F[i + 1:i + 2] + F[i:i + 1] + F[i + 2:], "transpose:%d" % i, counted=True)
    for junk in (b"\x00", b"\xff\xff", F, F[:5]):
        judge(acc, cc, F + junk, "trailing:%d" % len(junk))
    for i in (0, 2, 4, len(F) // 2, len(F) - 2):
        if 0 <= i < len(F):
            judge(acc, cc, F[:i] + F[i + 1:], "delete:%d" % i)
            judge(acc, cc, F[:i] + F[i:i + 1] + F[i:], "dup:%d" % i)
            judge(acc, cc, F[:i] + b"\x5a" + F[i:], "insert:%d" % i)
    for o in others:
        judge(acc, cc, o.F, "foreign:%s-%s" % (o.framing, o.kind if isinstance(o.kind, str) else "fixed"))
    # "resealed" neighbourhood: one structural edit (insert / delete / substitute a byte) and the checksum (RTU: CRC-16 over
    # everything after the AA55 marker; AA55: additive sum) recomputed so that the frame gets past the checksum gate - also
    # for Modbus/TCP, with the MBAP length adjusted or not.  Inserted values come from a dictionary of bytes that mean
    # something in the exchange (byte counts, register counts, function codes, marker bytes).
    def reseal(x):
        if len(x) < 6:
            return x
        if cc.framing == "rtu":
            return x[:-2] + rw.crc_bytes(x[2:-2])
        if cc.framing == "aa55":
            return x[:-2] + rw.u16(rw.sum16(x[:-2]))
        return x
    nbytes = len(cc.arg) if isinstance(cc.arg, (bytes, bytearray)) else (2 * cc.arg if cc.kind == "read" else 2)
    vocab = sorted({0, 1, 2, 3, 6, 0x10, 0x83, 0x86, 0x90, 0xAA, 0x55, 0xF7, 0xFF, nbytes & 0xFF, (nbytes // 2) & 0xFF, (nbytes + 1) & 0xFF, len(F) & 0xFF}
                   | set(F[:12]))
    body_end = len(F) - (2 if cc.framing in ("rtu", "aa55") else 0)
    positions = sorted(set(range(0, min(body_end, 14))) | {body_end - 1, body_end})
    for i in positions:
        for v in vocab:
            x = F[:i] + bytes((v,)) + F[i:]
            judge(acc, cc, reseal(x), "sealed-insert:%d" % i, counted=True)
            if cc.framing == "tcp" and i >= 6:
                judge(acc, cc, x[:4] + rw.u16((rw.be16(x, 4) + 1) & 0xFFFF) + x[6:], "sealed-insert-mbap:%d" % i, counted=True)
            if i < body_end and v != F[i]:
                judge(acc, cc, reseal(F[:i] + bytes((v,)) + F[i + 1:]), "sealed-subst:%d" % i, counted=True)
        if i < body_end:
            x = F[:i] + F[i + 1:]
            judge(acc, cc, reseal(x), "sealed-delete:%d" % i, counted=True)
            if cc.framing == "tcp" and i >= 6:
                judge(acc, cc, x[:4] + rw.u16((rw.be16(x, 4) - 1) & 0xFFFF) + x[6:], "sealed-delete-mbap:%d" % i, counted=True)
    if cc.kind == "read":
        # well-formed, self-consistent read answers of every other payload length 0..255 (odd ones included): several fields
        # deviate together (byte count, MBAP/AA55 length, payload, checksum), which no single-byte mutation reaches
        for L in range(256):
            if L != len(cc.payload):
                pl = bytes((cc.payload[i % len(cc.payload)] if cc.payload else (i * 7 + 1) & 0xFF) for i in range(L))
                judge(acc, cc, conforming(cc.framing, "read", cc.addr, cc.reg, cc.arg, pl)[0], "wronglen:%d" % L, counted=True)
    if cc.framing in ("rtu", "tcp"):
        fc = {"read": 3, "write": 6, "write_multi": 16}[cc.kind]
        for code in (0, 1, 2, 3, 4, 11, 255):
            x = rw.rtu_exception_response(cc.addr, fc, code) if cc.framing == "rtu" else rw.tcp_exception_response(7, cc.addr, fc, code)
            judge(acc, cc, x, "exception:%d" % code)
            judge(acc, cc, x[:-1] + bytes((x[-1] ^ 0x10,)), "exception-badcrc:%d" % code)


def trailer_job(job):
    """Every one of the 65,536 values of the two checksum bytes of a valid frame (checksummed framings)."""
    framing, idx, which = job
    acc = Acc()
    cc = commands_for(framing, idx)[which]
    F = cc.F
    pos = len(F) - 2 if framing == "aa55" or cc.kind == "read" else 8   # RTU write answers: CRC at 8..9
    if framing == "rtu" and cc.kind == "read":
        pos = 5 + F[4]
    b = bytearray(F)
    for v in range(65536):
        b[pos] = v >> 8
        b[pos + 1] = v & 0xFF
        judge(acc, cc, bytes(b), "trailer:%04x" % v, counted=True)
    return acc


def commands_for(framing, idx):
    """Deterministic family of commands for a framing."""
    out = []
    if framing in ("rtu", "tcp"):
        counts = (1, 2, 3, 16, 60, 125)
        regs = (35100, 0, 0xFFFF, 0x8000, 47547, 36000)
        addrs = (0xF7, 0x7F, 0, 0xFF, 1, 0xF7)
        c = counts[idx % 6]
        out.append(CmdCtx(framing, "read", addrs[idx % 6], regs[idx % 6], c, _payload(("pattern", "ff", "zero", "7f80")[idx % 4], 2 * c, idx)))
        vals = (0, 1, -1, -32768, 32767, 0x1234, -2, 255, 256, -256)
        out.append(CmdCtx(framing, "write", addrs[(idx + 1) % 6], regs[(idx + 2) % 6], vals[idx % 10], b""))
        n = (2, 4, 8, 12, 24, 246)[idx % 6]
        out.append(CmdCtx(framing, "write_multi", addrs[(idx + 2) % 6], regs[(idx + 4) % 6], _payload("pattern", n, idx), b""))
    else:
        lens = (0, 1, 16, 86, 140, 255)
        kinds = (("010200", "0182"), ("010600", "0186"), ("010900", "0189"))
        # (idx // 6) decouples the content class from the length so that e.g. the maximal all-0xFF frame (byte sum > 0xFFFF) occurs
        out.append(CmdCtx("aa55", kinds[idx % 3], 0, 0, 0, _payload(("pattern", "ff", "zero", "fe")[(idx // 6) % 4], lens[idx % 6], idx)))
        if idx % 6 == 5:
            out.append(CmdCtx("aa55", kinds[(idx // 6) % 3], 0, 0, 0, b"\xff" * (250 + idx % 6)))
        c = (1, 4, 6, 100)[idx % 4]
        out.append(CmdCtx("aa55", "read", 0, (0x701, 0x560, 0, 0xFFFF)[idx % 4], c, _payload("pattern", 2 * c, idx)))
        out.append(CmdCtx("aa55", "write", 0, 0x560, (0, 50, -1, 32767)[idx % 4], b"\x06"))
        out.append(CmdCtx("aa55", "write_multi", 0, 0x701, _payload("pattern", 8, idx), b"\x06"))
    return out


def struct_job(job):
    framing, idx = job
    acc = Acc()
    cmds = commands_for(framing, idx)
    foreign = cmds + commands_for({"rtu": "tcp", "tcp": "aa55", "aa55": "rtu"}[framing], idx) + commands_for(framing, idx + 1)
    for cc in cmds:
        structured(acc, cc, [o for o in foreign if o is not cc])
        for x in foreign_shapes(cc):
            judge(acc, cc, x, "foreign-shape")
    cc = cmds[0]
    acc.sample({"command": cc.desc(), "valid_frame": cc.F, "mutations": "all truncations, bit flips, header substitutions"})
    return acc


# ---------------------------------------------------------------------------------------------
def hyp_job(job):
    seed, n = job
    from hypothesis import strategies as st
    acc = Acc()

    @st.composite
    def cases(draw):
        framing = draw(st.sampled_from(("rtu", "tcp", "aa55")))
        cmds = commands_for(framing, draw(st.integers(0, 59)))
        cc = draw(st.sampled_from(cmds))
        mode = draw(st.sampled_from(("mutate", "mutate", "mutate+seal", "random", "splice")))
        F = cc.F
        if mode == "random":
            x = draw(st.binary(max_size=300))
        elif mode == "splice":
            other = draw(st.sampled_from(commands_for(draw(st.sampled_from(("rtu", "tcp", "aa55"))), draw(st.integers(0, 59)))))
            i = draw(st.integers(0, len(F)))
            j = draw(st.integers(0, len(other.F)))
            x = F[:i] + other.F[j:]
        else:
            b = bytearray(F)
            for _ in range(draw(st.integers(1, 4))):
                op = draw(st.sampled_from(("set", "set", "del", "ins", "trunc")))
                if not b:
                    break
                i = draw(st.integers(0, len(b) - 1))
                if op == "set":
                    b[i] = draw(st.integers(0, 255))
                elif op == "del":
                    del b[i:i + draw(st.integers(1, 3))]
                elif op == "ins":
                    b[i:i] = draw(st.binary(min_size=1, max_size=4))
                else:
                    del b[i:]
            x = bytes(b)
            if mode == "mutate+seal" and len(x) >= 6:
                # re-seal the checksum so that the mutation gets past the checksum gate
                if framing == "rtu":
                    x = x[:-2] + rw.crc_bytes(x[2:-2])
                elif framing == "aa55":
                    x = x[:-2] + rw.u16(rw.sum16(x[:-2]))
        return cc, x, mode

    def body(t):
        cc, x, mode = t
        sub = Acc()
        judge(sub, cc, x, "hyp:" + mode)
        acc.evals += sub.evals
        acc.nt |= sub.nt
        acc.classes.update(sub.classes)
        acc.cls("hyp|" + mode)
        if len(acc.samples) < 3:
            acc.sample(dict(cc.desc(), x=x, how=mode))
        out = [(k, v["msg"], v["case"]) for k, v in sub.viol.items()]
        out += [(k, sub.known_msg[k], dict(cc.desc(), x=x)) for k in sub.known]
        return out

    harness.hyp_search(acc, body, [cases()], seed=seed, max_examples=n)
    return acc


# ---------------------------------------------------------------------------------------------
def e2e_case(acc: Acc, case):
    """Serve x as the peer's answer (then silence). If execute() returns data D: D must satisfy N and be what was sent."""
    acc.case()
    framing = case["framing"]
    kind = tuple(case["kind"]) if isinstance(case["kind"], list) else case["kind"]
    x = case["x"]
    cc = CmdCtx(framing, kind, case["addr"], case["reg"], case["arg"], case.get("payload", b""))
    if x != cc.F and len(x) >= MIN_HEADER[framing]:
        acc.nontrivial("e2e", framing, repr(kind), case["addr"], case["reg"], repr(case["arg"]), x, case.get("keep"), case.get("split"))
    transport = {"rtu": "udp", "tcp": "tcp", "aa55": "aa55"}[framing]
    from vlib.vloop import ScriptedPeer, VLoop, World
    script = [["raw", 2, x]] if x else [["drop"]]
    if x and case.get("split"):      # the same bytes in two pieces (fragment + exact remainder of x)
        sp = max(1, min(len(x) - 1, case["split"]))
        script = [["multi", [[2, x[:sp]], [4, x[sp:]]]]] if len(x) > 1 else script
    peer = ScriptedPeer(netcase.make_responder(transport), netcase.to_actions(script, 1.0), default=("drop",))
    world = World(peer)
    loop = VLoop(world)
    protocol = netcase.make_protocol(transport, 1.0, 1, case.get("keep", False), comm_addr=case["addr"])
    out = loop.run(cc.cmd.execute(protocol))
    loop.idle()
    loop.shutdown()
    if out.hang is not None:
        return [("C01|%s|e2e|hang" % framing, str(out.hang), case)]
    acc.cls("e2e|%s|%s" % (framing, out.kind()))
    if out.kind() == "ok":
        D = out.result.raw_data
        why = necessary(framing, kind, case["addr"], case["reg"], case["arg"], D)
        if why is not None:
            return [("C01|%s|e2e|delivered-invalid" % framing, "execute() returned %s: %s" % (D.hex()[:100], why), case)]
        if D != x:
            return [("C01|%s|e2e|delivered-not-sent" % framing, "execute() returned bytes the peer never sent", case)]
    elif out.kind() not in ("RequestRejectedException", "RequestFailedException", "MaxRetriesException"):
        return [("C01|%s|e2e|outcome|%s" % (framing, out.kind()), repr(out.exc), case)]
    return []


def foreign_shapes(cc):
    """Well-formed answers to ANOTHER kind of request whose length fields happen to fit the pending command (a late answer to an
    earlier read while a write of value v is pending, a write echo while a read of v registers is pending, ...)."""
    out = []
    if cc.framing not in ("rtu", "tcp"):
        return out
    mk = lambda kind, reg, arg, payload=b"": conforming(cc.framing, kind, cc.addr, reg, arg, payload)[0]
    if cc.kind in ("write", "write_multi"):
        v = (cc.arg & 0xFFFF) if cc.kind == "write" else len(cc.arg) // 2
        if 0 < v <= 125:
            out.append(mk("read", cc.reg, v, bytes((7 * i + 1) & 0xFF for i in range(2 * v))))
        out.append(mk("write_multi", cc.reg, bytes(2 * max(1, v & 0x7F))) if cc.kind == "write" else mk("write", cc.reg, len(cc.arg) // 2))
    else:
        out.append(mk("write", cc.reg, cc.arg))
        out.append(mk("write_multi", cc.reg, bytes(2 * cc.arg)))
    return out


def e2e_job(job):
    framing, idx = job
    acc = Acc()
    for cc in commands_for(framing, idx):
        F = cc.F
        for x in foreign_shapes(cc) + [F]:
            for sp in sorted({MIN_HEADER[framing], MIN_HEADER[framing] + 1, len(x) // 2, len(x) - 2, len(x) - 1} & set(range(1, len(x)))):
                for keep in (False, True):
                    case = dict(cc.desc(), x=x, keep=keep, split=sp)
                    for key, msg, c in e2e_case(acc, case):
                        acc.fail(key, msg, c)
        xs = [F, F[:-1], F[:len(F) // 2], F + b"\x00", F[1:], b"", F[:3]]
        b = bytearray(F)
        for i in range(0, len(F), max(1, len(F) // 24)):
            b[i] ^= 0x04
            xs.append(bytes(b))
            b[i] ^= 0x04
        for o in commands_for(framing, idx + 1):
            xs.append(o.F)
        for x in xs:
            for keep in (False, True):
                case = dict(cc.desc(), x=x, keep=keep)
                for key, msg, c in e2e_case(acc, case):
                    acc.fail(key, msg, c)
    return acc


def atheris_stage(ctx):
    """Coverage-guided byte-level fuzzing of the three validators with the semantic oracle inside the target."""
    import os, subprocess, sys, tempfile, shutil, json
    target = os.path.join(harness.VERIF, "tools", "atheris_c01.py")
    if not os.path.exists(target):
        ctx.skipped.append("atheris stage: target script missing")
        return
    try:
        sys.path.append(harness.DEPS)
        import atheris  # noqa
    except Exception as ex:
        ctx.skipped.append("atheris stage: atheris not importable (%s)" % type(ex).__name__)
        return
    secs = 45
    work = tempfile.mkdtemp(prefix="c01_atheris_", dir="/var/tmp")
    try:
        procs = []
        for framing in ("rtu", "tcp", "aa55"):
            out = os.path.join(work, framing)
            os.makedirs(os.path.join(out, "corpus"))
            env = dict(os.environ, C01_FRAMING=framing, C01_OUT=out, PYTHONPATH=harness.DEPS)
            procs.append((framing, out, subprocess.Popen(
                [sys.executable, target, os.path.join(out, "corpus"), "-max_total_time=%d" % secs, "-seed=%d" % (ctx.seed or 1),
                 "-max_len=320", "-print_final_stats=1"], env=env, stdout=subprocess.PIPE, stderr=subprocess.STDOUT, text=True)))
        for framing, out, p in procs:
            log, _ = p.communicate(timeout=secs + 120)
            execs = 0
            for line in log.splitlines():
                if "stat::number_of_executed_units" in line:
                    execs = int(line.split()[-1])
            ctx.acc.case(execs)
            ctx.acc.cls("atheris|%s|execs" % framing, execs)
            finding = os.path.join(out, "finding.json")
            if os.path.exists(finding):
                with open(finding) as f:
                    d = json.load(f)
                ctx.acc.fail(d["key"], d["msg"], harness.unhex(d["case"]))
        ctx.engines.append("atheris coverage-guided fuzzing of the three validators (%d s each, empty corpus)" % secs)
    finally:
        shutil.rmtree(work, ignore_errors=True)


# ---------------------------------------------------------------------------------------------
# histories: whatever happened before on the object, a delivered result is a validated answer to the request that gets it
# ---------------------------------------------------------------------------------------------
HIST_SPECS = {
    "udp": [("read", 35100, 4), ("read", 36000, 45), ("write", 47510, -5), ("read", 35100, 5)],
    "tcp": [("read", 35100, 4), ("read", 36000, 45), ("write", 47510, -5), ("read", 35100, 5)],
    "aa55": [("aa55", "010600", "0186"), ("aa55", "010200", "0182"), ("aa55", "010900", "0189")],
}


def history_case(acc: Acc, case):
    acc.case()
    transport, keep = case["transport"], case["keep"]
    framing = {"udp": "rtu", "tcp": "tcp", "aa55": "aa55"}[transport]
    acc.nontrivial("history", transport, keep, repr(case["steps"]))
    results, world, errors, protocol = netcase.run_sequence({"transport": transport, "keep": keep, "T": 1.0, "R": 2, "latency": 0, "steps": case["steps"]})
    reqs = [st for st in case["steps"] if st["op"] == "request"]
    fails = []
    got = [r for r in results if r.kind != "closed"]
    for st, ro in zip(reqs, got):
        if ro.hang is not None or ro.kind.startswith("harness"):
            fails.append(("C01|%s|history|hang" % framing, "%r %r" % (ro.hang, ro.exc), case))
            break
        if ro.kind == "ok":
            spec = st["command"]
            D = ro.result.raw_data
            if spec[0] == "aa55":
                why = rw.necessary_aa55(bytes.fromhex(spec[2]), D)
            else:
                why = necessary(framing, spec[0], 0xF7, spec[1], spec[2], D)
            if why is not None:
                fails.append(("C01|%s|history|delivered-invalid" % framing, "request %r (request %d of the history) was handed %s: %s" % (
                    tuple(spec), reqs.index(st) + 1, D.hex()[:80], why), case))
                break
            if not any(d[3] == D for d in world.deliveries) and not any(a[3] + b[3] == D for a in world.deliveries for b in world.deliveries):
                fails.append(("C01|%s|history|delivered-not-sent" % framing, "request %r was handed bytes the peer never sent" % (tuple(spec),), case))
                break
        elif ro.kind not in ("RequestRejectedException", "RequestFailedException", "MaxRetriesException"):
            fails.append(("C01|%s|history|outcome|%s" % (framing, ro.kind), repr(ro.exc), case))
            break
    return fails


def history_job(job):
    transport, keep = job
    acc = Acc()
    specs = HIST_SPECS[transport]
    lost = ["eof", 2] if transport == "tcp" else ["recverr", 2, "ECONNREFUSED"]
    firsts = {"ok": {"script": [["answer", 2]]}, "ok-then-dropped": {"script": [["combo", [["answer", 1], (["eof", 5] if transport == "tcp" else ["recverr", 5, "ECONNREFUSED"])]]]},
              "ok-late-dup": {"script": [["dup", 2, 20]]}, "rejected": {"script": [["exc", 2, 2]]}, "silent": {"script": []}}
    seconds = {"ok": {"script": [["answer", 2]]}, "drop-ok": {"script": [["drop"], ["answer", 2]]}, "lost-ok": {"script": [lost, ["answer", 2]]},
               "connect-fails-once": {"script": [["answer", 2]], "connect": ["refused" if transport == "tcp" else "unreachable"]},
               "connect-fails-twice": {"script": [["answer", 2]], "connect": ["refused" if transport == "tcp" else "unreachable"] * 2},
               "senderr-ok": {"script": [["senderr", "ECONNREFUSED"], ["answer", 2]]}, "frag-ok": {"script": [["frag", 9, 2, 5]]},
               "garbage-ok": {"script": [["garbage", 2], ["answer", 2]]}}
    for i, c1 in enumerate(specs):
        for c2 in specs:
            if c1 == c2:
                continue
            for f1, s1 in firsts.items():
                for f2, s2 in seconds.items():
                    for gap in (None, "idle", "close", "newloop"):
                        steps = [dict(s1, op="request", command=list(c1))]
                        if gap:
                            steps.append({"op": gap})
                        steps.append(dict(s2, op="request", command=list(c2)))
                        steps.append({"op": "request", "script": [["answer", 1]], "command": list(specs[(i + 2) % len(specs)])})
                        case = {"history": True, "transport": transport, "keep": keep, "steps": steps}
                        for key, msg, c in history_case(acc, case):
                            acc.fail(key, msg, c)
    acc.sample(case)
    return acc


def run(ctx):
    from vlib import concur
    concur.register(ctx, "C01")
    ctx.shard(history_job, [(t, k) for t in ("udp", "tcp", "aa55") for k in (False, True)],
              "histories of 3 different requests on one protocol object (first: answered / dropped afterwards / rejected / silent; second: lost, "
              "connect failures, fragments ...): every delivered result is a validated answer to ITS request")
    nidx = ctx.pick(12, 60)
    jobs = [(f, i) for i in range(nidx) for f in ("rtu", "tcp", "aa55")]
    ctx.shard(struct_job, jobs, "structured neighbourhood: all truncations, all single-bit flips, 256 substitutions per header position, foreign frames")
    ctx.exhaustive_parts.append("for each generated command: every truncation, every single-bit flip and every byte value at every header/length/echo/checksum position of its valid answer")
    tj = [(f, i, w) for f in ("rtu", "aa55") for i in range(ctx.pick(1, 4)) for w in range(3)]
    ctx.shard(trailer_job, tj, "all 65,536 values of the checksum bytes of valid frames (read / write / multi or fixed AA55 commands)")
    ctx.exhaustive_parts.append("all 65,536 trailer (CRC-16 / additive checksum) values for %d valid frames per checksummed framing" % (3 * ctx.pick(1, 4)))
    n = ctx.pick(24000, 400000)
    ctx.shard(hyp_job, [(ctx.seed * 1000 + i, n // 16) for i in range(16)], "hypothesis mutations (with checksum re-sealing), splices, random bytes")
    ctx.shard(e2e_job, [(f, i) for i in range(ctx.pick(4, 24)) for f in ("rtu", "tcp", "aa55")], "end-to-end: mutated frame served by the scripted peer")
    if not ctx.quick:
        atheris_stage(ctx)
    else:
        ctx.skipped.append("atheris stage (thorough tier only)")


def replay(ctx, case):
    if isinstance(case, dict) and case.get("overlap") and "callers" in case:
        from vlib import concur
        concur.replay(ctx.acc, case, concur.INVARIANTS["C01"], "C01")
        return
    if case.get("history"):
        for key, msg, c in history_case(ctx.acc, case):
            ctx.acc.fail(key, msg, c)
        return
    kind = tuple(case["kind"]) if isinstance(case["kind"], list) else case["kind"]
    if "keep" in case:
        for key, msg, c in e2e_case(ctx.acc, case):
            ctx.acc.fail(key, msg, c)
        return
    cc = CmdCtx(case["framing"], kind, case["addr"], case["reg"], case["arg"], case.get("payload", b""))
    judge(ctx.acc, cc, case["x"], case.get("how", "replay"))
