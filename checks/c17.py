"""C17 - a written setting reads back as written and touches only its own registers."""
from __future__ import annotations

from datetime import datetime
from fractions import Fraction

from vlib import harness, refsensor as rs, refwire as rw, siminv
from vlib.harness import Acc, run_sync
from checks.c12 import mix

LEVEL = "exploration"
RULE = ("case = (family / firmware variant, setting, value of its encodable domain, prior register image, transport). For every "
        "setting whose type defines an encoder (Integer, Long, Voltage, Current, CurrentS, Decimal, ByteH/ByteL, Timestamp, eco-mode "
        "V1 / V2 / peak-shaving groups) of ET (base / fw19 / fw22), DT (single / three phase) and the register-addressed settings "
        "of ES (eco V1 over AA55, eco V2 over Modbus, switches): write_setting(id, v) against a simulated register file must (1) "
        "send exactly one write, to the setting's address, with exactly ceil(size/2) registers carrying the reference encoding of "
        "v (one-byte settings merged with the prior other half), (2) leave every other register unchanged, (3) read back as v. "
        "Value domains of 1/2-byte types are enumerated exhaustively (quick: one instance per type + 200 values per instance; "
        "thorough: every instance), wide types get boundary + patterned + Hypothesis values; a sample runs end-to-end (RTU/UDP, "
        "Modbus/TCP, AA55). Non-trivial = v differs from the prior content and (v negative, or not a short binary fraction, or the "
        "setting shares its register); distinct by (variant, setting, value).")
ASSUMPTIONS = [
    "the all-ones word is the documented 'no value' sentinel on read (Voltage/Current/Integer 0xFFFF, Long 0xFFFFFFFF read as 0), so it "
    "is outside the round-trip domain (DESIGN.md D5)",
    "decimal values are passed as the Python float nearest to k/scale (what a caller typing the number gets)",
    "group values: structurally valid groups (times in range, day bitmap 0..127 or 0xFF, month bitmap 0..0x0FFF, power/SoC in range)",
    "simulated register file vlib/siminv.py is the reference model; ES AA55 register space as transcribed there",
]

ENCODABLE = ("Integer", "IntegerS", "Long", "LongS", "Voltage", "Current", "CurrentS", "Decimal", "ByteH", "ByteL", "Timestamp",
             "EcoModeV1", "EcoModeV2", "PeakShavingMode", "Schedule")


# ---------------------------------------------------------------------------------------------
# variants: (name, builder) -> (inverter, simulator) with read_device_info done
# ---------------------------------------------------------------------------------------------
VARIANTS = {
    "ET-base": dict(family="ET", serial=b"9010KETU000W0000", refuse=["eco_v2", "peak_shaving"]),
    "ET-fw19": dict(family="ET", serial=b"9010KETU000W0000", refuse=["peak_shaving"]),
    "ET-fw22": dict(family="ET", serial=b"9010KETT000W0000", refuse=[]),
    "DT-three": dict(family="DT", serial=b"9010KDTU000W0000", refuse=[]),
    "DT-single": dict(family="DT", serial=b"9010KDSN000W0000", refuse=[]),
    "ES-v1": dict(family="ES", serial=b"95048ESU000W0000", firmware=b"02041"),
    "ES-v2": dict(family="ES", serial=b"95048ESU000W0000", firmware=b"2214E"),
}


def build(variant, salt, tcp=False):
    from vlib import tables
    tables.restore_definitions()  # cases must not depend on what earlier cases left on the shared definition objects
    cfg = dict(VARIANTS[variant])
    cfg["tcp"] = tcp and cfg["family"] != "ES"
    default = (lambda a: mix(salt, a) & 0xFFFF) if salt else 0
    inv, sim = siminv.build_direct(cfg, default=default)
    if cfg["family"] == "ES" and salt:
        sim.regs = _Regs(default)
    if cfg["tcp"] and salt % 3 == 1:
        # Modbus/TCP answers with bytes after the announced payload (accepted by the library as valid answers)
        inv._verif_responder.trailing = bytes((mix(salt, 1) & 0xFF, mix(salt, 2) & 0xFF))
    run_sync(inv.read_device_info())
    for sid_, st_ in inv._settings.items():     # first sighting of every definition of this variant in this process (see check_write)
        DEF_SEEN.setdefault((variant, sid_), (rs.type_name(st_), st_.offset, st_.size_))
    return inv, sim


DEF_SEEN = {}


class _Regs(dict):
    def __init__(self, fn):
        super().__init__()
        self.fn = fn

    def get(self, a, default=0):
        return dict.get(self, a, self.fn(a))


def settings_of(variant):
    inv, _ = build(variant, 0)
    out = []
    for s in inv.settings():
        if rs.type_name(s) not in ENCODABLE:
            continue
        if variant.startswith("ES") and s.offset <= 255:
            continue  # plain AA55 settings are not register-addressed (outside the property)
        out.append(s.id_)
    return out


# ---------------------------------------------------------------------------------------------
# register access on the two simulator kinds
# ---------------------------------------------------------------------------------------------
def reg_view(sim, setting):
    """(get(a), written-log list, snapshot()) for the address space the setting lives in."""
    if isinstance(sim, siminv.Aa55Sim):
        if setting.offset > 30000:
            m = sim.modbus
            return m.get, lambda: m.writes(), lambda: dict(m.regs), m
        return sim.reg_get, lambda: [e for e in sim.log if e[0] == "W"], lambda: (bytes(sim.settings), dict(sim.regs)), sim
    return sim.get, lambda: sim.writes(), lambda: dict(sim.regs), sim


def all_write_count(sim):
    if isinstance(sim, siminv.Aa55Sim):
        return len([e for e in sim.log if e[0] == "W"]) + len(sim.modbus.writes())
    return len(sim.writes())


def group_value_ok(got, raw: bytes, tn):
    """Compare the object returned by read_setting with the reference decode of the written bytes."""
    try:
        f = rs.eco_v1_fields(raw) if tn == "EcoModeV1" else rs.schedule_fields(raw)
    except rs.Undecodable:
        return True
    for k in ("start_h", "start_m", "end_h", "end_m", "power", "on_off", "day_bits"):
        if getattr(got, k, None) != f[k]:
            return "%s=%r, written %r" % (k, getattr(got, k, None), f[k])
    if tn != "EcoModeV1":
        for k in ("soc", "month_bits"):
            if getattr(got, k, None) != f[k]:
                return "%s=%r, written %r" % (k, getattr(got, k, None), f[k])
    return True


def set_prior(sim, setting, word):
    if isinstance(sim, siminv.Aa55Sim):
        if setting.offset > 30000:
            sim.modbus.set(setting.offset, word)
        else:
            sim.reg_set(setting.offset, word)
    else:
        sim.set(setting.offset, word)


INTERLOPER = {"DT-three": "DT-single", "DT-single": "DT-three", "ES-v1": "ES-v2", "ES-v2": "ES-v1"}


def check_write(acc: Acc, variant, sid, value, salt, tcp=False, counted=False, prior_word=None, interloper=False, expect_def=None):
    """value: python value handed to write_setting (for groups: bytes). prior_word: explicit prior content of the first register.
    interloper: ANOTHER inverter object of a different model of the same family is created and identified in between (its own
    simulated inverter) - the write must still use this object's definitions."""
    acc.case()
    inv, sim = build(variant, salt, tcp)
    if interloper:
        other = INTERLOPER.get(variant) or next((v for v in VARIANTS if v != variant and VARIANTS[v]["family"] == VARIANTS[variant]["family"]), None)
        if other:
            cfg2 = dict(VARIANTS[other])
            cfg2["tcp"] = False
            inv2, _sim2 = siminv.build_direct(cfg2, default=0)
            run_sync(inv2.read_device_info())
    setting = inv._settings[sid]
    tn = rs.type_name(setting)
    fam = VARIANTS[variant]["family"]
    case = {"variant": variant, "setting": sid, "value": value if not isinstance(value, datetime) else value.isoformat(),
            "salt": salt, "tcp": tcp, "type": tn, "prior_word": prior_word, "interloper": interloper}
    if expect_def is not None and tuple(expect_def) != (tn, setting.offset, setting.size_):
        return acc.fail("C17|%s|setting-definition-unstable" % fam, "setting %r is %s@%d/%d bytes on this object but %s@%d/%d bytes on an identically "
                        "configured object of the same process" % ((sid, tn, setting.offset, setting.size_) + tuple(expect_def)), case)
    # identically configured inverter objects must hold the same definition for an id, whatever other objects were created in the
    # process (first sighting = the objects built while the jobs were planned)
    sig = (tn, setting.offset, setting.size_)
    first = DEF_SEEN.setdefault((variant, sid), sig)
    if first != sig:
        return acc.fail("C17|%s|setting-definition-unstable" % fam, "setting %r is %s@%d/%d bytes on this object but was %s@%d/%d bytes on an identically "
                        "configured object created earlier in the process" % ((sid,) + sig + first), case)
    if prior_word is not None:
        set_prior(sim, setting, prior_word)
    get, wlog, snap, space = reg_view(sim, setting)
    nregs = (setting.size_ + 1) // 2
    prior = b"".join(get(setting.offset + i).to_bytes(2, "big") for i in range(nregs))
    try:
        want = rs.encode(setting, value, prior) if tn not in rs.GROUPS else bytes(value)
    except Exception as ex:
        if expect_def is not None and expect_def != (tn, setting.offset, setting.size_):
            # the value was chosen for the definition an identically configured inverter object held a moment ago; this object
            # holds ANOTHER definition under the same id (something leaked between objects): the write cannot be 'addressed to
            # exactly the registers of that setting'
            return acc.fail("C17|%s|setting-definition-unstable" % fam, "setting %r is %s@%d/%d bytes on this object but %s@%d/%d bytes on an identically "
                            "configured object created earlier in the process" % ((sid, tn, setting.offset, setting.size_) + tuple(expect_def)), case)
        raise harness.HarnessError("reference encoder failed for %s %r: %r" % (sid, value, ex))
    shares = setting.size_ == 1
    neg = (isinstance(value, (int, float)) and value < 0)
    frac = isinstance(value, float) and value != int(value)
    if want != prior and (neg or frac or shares or tn in rs.GROUPS or tn == "Timestamp"):
        if counted:
            acc.nontrivial_counted()
        else:
            acc.nontrivial(variant, sid, repr(value), salt)
    before_writes = all_write_count(sim)
    before = snap()
    key0 = "C17|%s|%s" % (fam, tn)
    try:
        run_sync(inv.write_setting(sid, value))
    except Exception as ex:
        return acc.fail("%s|write-raised|%s" % (key0, type(ex).__name__), "write_setting(%r, %r) raised %r" % (sid, value, ex), case)
    # (1) exactly one write, right address, right registers
    nw = all_write_count(sim) - before_writes
    if nw != 1:
        return acc.fail("%s|write-count" % key0, "write_setting(%r, %r) sent %d writes" % (sid, value, nw), case)
    after_regs = b"".join(get(setting.offset + i).to_bytes(2, "big") for i in range(nregs))
    if after_regs != want:
        return acc.fail("%s|wrong-encoding" % key0, "write_setting(%r, %r): registers %d.. now hold %s, reference encoding %s (prior %s)" % (
            sid, value, setting.offset, after_regs.hex(), want.hex(), prior.hex()), case)
    # (2) nothing else changed
    after = snap()
    changed = diff_snap(before, after, space, get)
    own = set(range(setting.offset, setting.offset + nregs))
    stray = sorted(changed - own)
    if stray:
        return acc.fail("%s|foreign-registers-changed" % key0, "write_setting(%r, %r) also changed registers %s" % (sid, value, stray[:6]), case)
    # (3) reads back
    try:
        got = run_sync(inv.read_setting(sid))
    except Exception as ex:
        return acc.fail("%s|readback-raised|%s" % (key0, type(ex).__name__), "read_setting(%r) after writing %r raised %r" % (sid, value, ex), case)
    if tn in rs.GROUPS:
        ok = group_value_ok(got, bytes(value), tn)
        if ok is not True:
            return acc.fail("%s|readback-differs" % key0, "read_setting(%r) after writing %s: %s" % (sid, bytes(value).hex(), ok), case)
    elif tn == "Timestamp":
        if got != value:
            return acc.fail("%s|readback-differs" % key0, "read_setting(%r) = %r after writing %r" % (sid, got, value), case)
    elif not rs.same(got, value):
        sub = "|eco-switch-via-settings-block" if (fam == "ES" and sid.endswith("_switch")) else ""
        return acc.fail("%s|readback-differs%s" % (key0, sub), "read_setting(%r) = %r after write_setting(%r, %r) (registers hold %s)" % (
            sid, got, sid, value, after_regs.hex()), case)
    return False


def diff_snap(before, after, space, get):
    changed = set()
    if isinstance(before, tuple):
        sb, rb = before
        sa, ra = after
        for i in range(0, min(len(sb), len(sa)) - 1, 2):
            if sb[i:i + 2] != sa[i:i + 2]:
                changed.add(siminv.SETTINGS_BASE_REG + i // 2)
        before, after = rb, ra
    for a in set(before) | set(after):
        if before.get(a) != after.get(a):
            if a in before or after.get(a) != (space.regs.fn(a) if hasattr(getattr(space, "regs", None), "fn") else _default_of(space, a)):
                changed.add(a)
    return changed


def _default_of(space, a):
    d = getattr(space, "default", 0)
    return (d(a) if callable(d) else d) & 0xFFFF


# ---------------------------------------------------------------------------------------------
# value domains
# ---------------------------------------------------------------------------------------------
def domain_size(setting):
    tn = rs.type_name(setting)
    return {"Integer": 65535, "IntegerS": 65536, "Voltage": 65535, "Current": 65535, "CurrentS": 65536, "Decimal": 65536,
            "ByteH": 256, "ByteL": 256}.get(tn)


def nth_value(setting, k):
    """k-th value of the enumerable domain of a 1/2-byte setting."""
    tn = rs.type_name(setting)
    if tn == "Integer":
        return k
    if tn == "IntegerS":
        return k - 32768
    if tn in ("Voltage", "Current"):
        return k / 10
    if tn == "CurrentS":
        return (k - 32768) / 10
    if tn == "Decimal":
        return (k - 32768) / setting.scale
    return k - 128


def wide_values(setting, n, salt):
    tn = rs.type_name(setting)
    out = []
    if tn == "Long":
        out = [0, 1, 255, 256, 65535, 65536, 0x7FFFFFFF, 0x80000000, 0xFFFFFFFE, 100000, 9600]
        out += [mix(salt, k) & 0xFFFFFFFF for k in range(n)]
        out = [v for v in out if v != 0xFFFFFFFF]
    elif tn == "LongS":
        out = [0, 1, -1, -2 ** 31, 2 ** 31 - 1] + [(mix(salt, k) & 0xFFFFFFFF) - 2 ** 31 for k in range(n)]
    elif tn == "Timestamp":
        out = [datetime(2000, 1, 1, 0, 0, 0), datetime(2255, 12, 31, 23, 59, 59), datetime(2024, 2, 29, 12, 30, 45),
               datetime(2099, 12, 31, 23, 59, 59), datetime(2100, 1, 1, 0, 0, 1), datetime(2127, 6, 15, 8, 0, 0), datetime(2128, 1, 1, 0, 0, 0)]
        for k in range(n):
            m = mix(salt, k)
            out.append(datetime(2000 + m % 256, 1 + (m >> 8) % 12, 1 + (m >> 12) % 28, (m >> 17) % 24, (m >> 22) % 60, (m >> 26) % 60))
    elif tn == "EcoModeV1":
        for k in range(n + 8):
            m = mix(salt, k, 3)
            sh = (0, 23, 48, m % 24)[k % 4]
            eh = (23, 0, 48, (m >> 5) % 24)[k % 4]
            power = ((m >> 10) % 201) - 100
            on = (0, 0xFF)[(m >> 18) & 1]
            days = (0, 127, 0xFF, (m >> 19) % 128)[(k // 4) % 4]
            out.append(bytes((sh, (m >> 3) % 60, eh, (m >> 7) % 60)) + (power & 0xFFFF).to_bytes(2, "big") + bytes((on, days)))
    elif tn in ("EcoModeV2", "PeakShavingMode", "Schedule"):
        onoffs = (0, 0xFF, 1, 0xFE, 2, 0xFD, 3, 0xFC, 4, 0xFB, 5, 0xFA, 6, 0xF9, 85)
        for k in range(n + 15):
            m = mix(salt, k, 5)
            on = onoffs[k % len(onoffs)]
            stype = rs.SCHEDULE_TYPES[on - 256 if on >= 128 else on]
            lim = 100 if stype == 0 else (1000 if stype == 6 else 32767)
            power = ((m >> 10) % (2 * lim + 1)) - lim
            sh = (0, 23, 48, 0xFF, m % 24)[k % 5]
            out.append(bytes((sh, (m >> 3) % 60, (m >> 5) % 24, (m >> 7) % 60, on, (0, 127, 0xFF, (m >> 19) % 128)[(k // 5) % 4]))
                       + (power & 0xFFFF).to_bytes(2, "big") + ((m >> 21) % 101).to_bytes(2, "big") + ((0, 0x0FFF, (m >> 4) % 0x1000)[k % 3]).to_bytes(2, "big"))
    return out


def sweep_job(job):
    variant, sid, lo, hi, salt = job
    acc = Acc()
    inv, _ = build(variant, 0)
    setting = inv._settings[sid]
    for k in range(lo, hi):
        check_write(acc, variant, sid, nth_value(setting, k), salt if k % 3 else 0, tcp=bool(k & 1), counted=True,
                    expect_def=(rs.type_name(setting), setting.offset, setting.size_))
    return acc


def prior_job(job):
    """One-byte settings share their register: every value of the OTHER half (and the full-word sentinels) must survive a write."""
    variant, quick = job
    acc = Acc()
    inv, _ = build(variant, 0)
    for sid in settings_of(variant):
        setting = inv._settings[sid]
        if setting.size_ != 1:
            continue
        words = set()
        for other in range(256):
            for own in (0x00, 0xFF, 0x7F, 0x80):
                words.add((own << 8 | other) if rs.type_name(setting) == "ByteH" else (other << 8 | own))
        words |= {0x0000, 0xFFFF, 0x7FFF, 0x8000, 0xFFFE, 0x00FF, 0xFF00}
        if not quick:
            words = set(range(65536))
        for w in sorted(words):
            for value in ((0, -1) if quick else (0, -1, 1, 127, -128)):
                check_write(acc, variant, sid, value, 0, tcp=bool(w & 1), counted=True, prior_word=w)
    return acc


def generic_job(job):
    """The generic ids 'modbus-<register>': write_setting writes exactly that register with the 16-bit two's complement of the
    value, nothing else changes, and read_setting of the same id returns the value."""
    variant, seed = job
    acc = Acc()
    fam = VARIANTS[variant]["family"]
    regs = (45222, 47000, 47510, 47549, 30000, 65535, 0, 1) if fam != "ES" else (45222, 47000, 47510, 47549, 30001, 65535, 32768, 40000)
    values = (0, 1, -1, 2, 255, 256, -256, 32767, -32768, 0x1234, -0x1234, 100)
    for j, reg in enumerate(regs):
        for v in values:
            acc.case()
            acc.nontrivial("generic", variant, reg, v)
            inv, sim = build(variant, seed + j, tcp=bool(j & 1))
            m = sim.modbus if isinstance(sim, siminv.Aa55Sim) else sim
            before = dict(m.regs)
            prior = m.get(reg)
            nw0 = all_write_count(sim)
            case = {"generic": True, "variant": variant, "reg": reg, "value": v, "seed": seed + j, "tcp": bool(j & 1)}
            sid = "modbus-%d" % reg
            from goodwe.exceptions import InverterError
            try:
                run_sync(inv.write_setting(sid, v))
            except InverterError:
                acc.cls("generic|refused-by-this-firmware")     # the property speaks about writes that succeed
                if m.regs != before:
                    acc.fail("C17|%s|generic|refused-write-changed-registers" % fam, "write_setting(%r, %d) failed but registers changed" % (sid, v), case)
                continue
            except Exception as ex:
                acc.fail("C17|%s|generic|write-raised|%s" % (fam, type(ex).__name__), "write_setting(%r, %d) raised %r" % (sid, v, ex), case)
                continue
            if all_write_count(sim) - nw0 != 1:
                acc.fail("C17|%s|generic|write-count" % fam, "write_setting(%r, %d) sent %d writes" % (sid, v, all_write_count(sim) - nw0), case)
                continue
            if m.get(reg) != v & 0xFFFF:
                acc.fail("C17|%s|generic|wrong-encoding" % fam, "write_setting(%r, %d): register holds %04x (prior %04x)" % (sid, v, m.get(reg), prior), case)
                continue
            stray = sorted(a for a in set(before) | set(m.regs) if a != reg and before.get(a, None) != m.regs.get(a, None))
            if stray:
                acc.fail("C17|%s|generic|foreign-registers-changed" % fam, "write_setting(%r, %d) also changed %s" % (sid, v, stray[:5]), case)
                continue
            try:
                got = run_sync(inv.read_setting(sid))
            except Exception as ex:
                acc.fail("C17|%s|generic|readback-raised|%s" % (fam, type(ex).__name__), "read_setting(%r) raised %r" % (sid, ex), case)
                continue
            if got != v:
                acc.fail("C17|%s|generic|readback-differs" % fam, "read_setting(%r) = %r after writing %d" % (sid, got, v), case)
    acc.sample({"generic": True, "variant": variant, "reg": regs[1], "value": -1})
    return acc


class _PreReadFault:
    """Responder wrapper: the next READ request is answered abnormally (once)."""

    def __init__(self, inner, kind):
        self.inner, self.kind, self.armed, self.harness_error = inner, kind, True, None

    def respond(self, data):
        try:
            return self._respond(data)
        except Exception as ex:          # a bug in this wrapper must not pass for a library failure
            self.harness_error = ex
            raise

    def _respond(self, data):
        is_read = (data[:2] == b"\xaa\x55" and data[4:6] == b"\x01\x1a") or (data[:2] != b"\xaa\x55" and (data[1] == 3 or (len(data) > 7 and data[7] == 3 and data[2:4] == b"\0\0")))
        if self.armed and is_read:
            self.armed = False
            if self.kind == "silent":
                return None
            if self.kind == "refused":
                return self.inner.exception(data, 2)
            if self.kind == "empty":       # AA55: a valid 019A frame without payload (the AA55 validator does not look at the length)
                return rw.aa55_response(b"\x01\x9a", b"") if data[:2] == b"\xaa\x55" else self.inner.exception(data, 4)
        return self.inner.respond(data)

    def __getattr__(self, name):
        return getattr(self.inner, name)


def check_faulty_preread(acc: Acc, variant, sid, value, prior_word, kind, tcp=False):
    """One-byte settings need a read before the write.  When that read is refused, unanswered or answered without payload the
    write may fail - but whatever happens, no register other than the setting's own byte may change, and if write_setting
    returns normally the setting must read back."""
    acc.case()
    acc.nontrivial_counted()
    inv, sim = build(variant, 0, tcp)
    setting = inv._settings[sid]
    tn = rs.type_name(setting)
    fam = VARIANTS[variant]["family"]
    case = {"faulty_preread": kind, "variant": variant, "setting": sid, "value": value, "prior_word": prior_word, "tcp": tcp}
    set_prior(sim, setting, prior_word)
    get, wlog, snap, space = reg_view(sim, setting)
    fault = _PreReadFault(siminv.responder_for(inv, sim), kind)
    siminv.attach_direct(inv, fault)
    before = snap()
    ok = True
    try:
        run_sync(inv.write_setting(sid, value))
    except Exception:
        ok = False
    if fault.harness_error is not None or fault.armed:
        raise harness.HarnessError("pre-read fault wrapper: %r (armed=%s)" % (fault.harness_error, fault.armed))
    after = snap()
    changed = diff_snap(before, after, space, get)
    stray = sorted(changed - {setting.offset})
    key0 = "C17|%s|%s|faulty-preread" % (fam, tn)
    if stray:
        return acc.fail(key0 + "|foreign-registers-changed", "pre-read %s: write_setting(%r, %r) changed registers %s" % (kind, sid, value, stray[:6]), case)
    now = get(setting.offset)
    other_before = (prior_word & 0x00FF) if tn == "ByteH" else (prior_word >> 8)
    other_now = (now & 0x00FF) if tn == "ByteH" else (now >> 8)
    if other_now != other_before:
        return acc.fail(key0 + "|other-half-changed", "pre-read %s: write_setting(%r, %r) %s and turned the shared register %04x into %04x - the other "
                        "half was lost" % (kind, sid, value, "returned normally" if ok else "raised", prior_word, now), case)
    own_now = (now >> 8) if tn == "ByteH" else (now & 0xFF)
    if ok and own_now != (value & 0xFF):
        return acc.fail(key0 + "|reported-success-without-effect", "pre-read %s: write_setting(%r, %r) returned normally but the register holds %04x" % (
            kind, sid, value, now), case)
    return False


def faulty_preread_job(job):
    variant, = job
    acc = Acc()
    inv, _ = build(variant, 0)
    for sid in settings_of(variant):
        if inv._settings[sid].size_ != 1:
            continue
        for kind in ("empty", "refused", "silent"):
            for w in (0x007F, 0x7F00, 0xFFFF, 0x1234, 0x8001, 0x0000, 0xA55A):
                for value in (0, -1, 5, 127, -128):
                    check_faulty_preread(acc, variant, sid, value, w, kind, tcp=bool(w & 2))
        if len(acc.samples) < 1:
            acc.sample({"faulty_preread": "empty", "variant": variant, "setting": sid, "value": -1, "prior_word": 0x007F})
    return acc


def instance_job(job):
    variant, nvals, seed = job
    acc = Acc()
    inv, _ = build(variant, 0)
    for sid in settings_of(variant):
        setting = inv._settings[sid]
        size = domain_size(setting)
        if size:
            ks = sorted({0, 1, 2, size - 1, size - 2, size // 2, size // 2 - 1, size // 2 + 1, 32767 % size, 32768 % size, 57 % size, 32825 % size}
                        | {mix(seed, hash(sid) & 0xFFFF, j) % size for j in range(nvals)})
            edef = (rs.type_name(setting), setting.offset, setting.size_)
            for k in ks:
                check_write(acc, variant, sid, nth_value(setting, k), seed + k, tcp=bool(k & 1), expect_def=edef)
            for k in ks[:3]:
                check_write(acc, variant, sid, nth_value(setting, k), seed + k, tcp=bool(k & 1), interloper=True, expect_def=edef)
        else:
            edef = (rs.type_name(setting), setting.offset, setting.size_)
            for j, v in enumerate(wide_values(setting, nvals // 4, seed)):
                check_write(acc, variant, sid, v, seed + j, tcp=bool(j & 1), expect_def=edef)
                if j < 3:
                    check_write(acc, variant, sid, v, seed + j, tcp=bool(j & 1), interloper=True, expect_def=edef)
        if len(acc.samples) < 2:
            acc.sample({"variant": variant, "setting": sid, "type": rs.type_name(setting), "offset": setting.offset, "size": setting.size_})
    return acc


def hyp_job(job):
    seed, n = job
    from hypothesis import strategies as st
    acc = Acc()
    table = [(v, sid) for v in VARIANTS for sid in settings_of(v)]

    # data generation must not depend on the state of the library under test: only indices are drawn here,
    # the value is derived from them inside the test body against a freshly built inverter
    cases = st.tuples(st.integers(0, len(table) - 1), st.one_of(st.integers(0, 2 ** 32 - 1), st.sampled_from((0, 1, 2, 32767, 32768, 65534, 65535))),
                      st.integers(0, 10 ** 6), st.booleans())

    def body(t):
        ti, k, salt, tcp = t
        variant, sid = table[ti]
        inv, _ = build(variant, 0)
        setting = inv._settings.get(sid)
        sub = Acc()
        if setting is None:
            return [("C17|%s|setting-disappeared" % VARIANTS[variant]["family"], "setting %r is no longer offered by variant %s" % (sid, variant),
                     {"variant": variant, "setting": sid})]
        size = domain_size(setting)
        if size:
            value = nth_value(setting, k % size)
        else:
            vals = wide_values(setting, 40, salt)
            if not vals:
                return []
            value = vals[k % len(vals)]
        check_write(sub, variant, sid, value, salt, tcp, interloper=bool(salt % 5 == 0), expect_def=(rs.type_name(setting), setting.offset, setting.size_))
        acc.evals += sub.evals
        acc.nt |= sub.nt
        acc.cls("hyp|" + rs.type_name(setting))
        return [(k_, v["msg"], v["case"]) for k_, v in sub.viol.items()] + [(k_, sub.known_msg[k_], {"variant": variant, "setting": sid}) for k_ in sub.known]

    harness.hyp_search(acc, body, [cases], seed=seed, max_examples=n, max_buckets=6)
    return acc


# ---------------------------------------------------------------------------------------------
def e2e_job(job):
    """write + read back through the real protocol stack on the virtual loop."""
    variant, seed = job
    from vlib.vloop import ScriptedPeer, VLoop, World
    acc = Acc()
    cfg = dict(VARIANTS[variant])
    fam = cfg["family"]
    for tcp in ((False, True) if fam != "ES" else (False,)):
        cfg["tcp"] = tcp
        inv0, _ = build(variant, 0)
        for j, sid in enumerate(settings_of(variant)):
            setting = inv0._settings[sid]
            size = domain_size(setting)
            value = nth_value(setting, mix(seed, j) % size) if size else wide_values(setting, 3, seed + j)[j % 3]
            acc.case()
            acc.nontrivial("e2e", variant, sid, repr(value), tcp)
            inv = siminv.make_inverter(fam, tcp, T=1, R=1)
            _, sim = siminv.build_direct(dict(cfg), default=lambda a: mix(seed, a) & 0xFFFF)
            peer = ScriptedPeer(siminv.responder_for(inv, sim), [], default=("answer", 0.0))
            loop = VLoop(World(peer))
            res = {}

            async def main():
                await inv.read_device_info()
                await inv.write_setting(sid, value)
                res["got"] = await inv.read_setting(sid)

            out = loop.run(main())
            loop.idle()
            loop.shutdown()
            case = {"variant": variant, "setting": sid, "value": value if not isinstance(value, datetime) else value.isoformat(), "tcp": tcp, "e2e": True, "seed": seed}
            tn = rs.type_name(setting)
            if out.hang is not None or out.exc is not None:
                acc.fail("C17|%s|%s|e2e|%s" % (fam, tn, out.kind()), "%r %r" % (out.hang, out.exc), case)
                continue
            got = res["got"]
            if tn in rs.GROUPS:
                ok = group_value_ok(got, bytes(value), tn)
                if ok is not True:
                    acc.fail("C17|%s|%s|readback-differs" % (fam, tn), "e2e: %s" % ok, case)
            elif not (got == value or rs.same(got, value)):
                sub = "|eco-switch-via-settings-block" if (fam == "ES" and sid.endswith("_switch")) else ""
                acc.fail("C17|%s|%s|readback-differs%s" % (fam, tn, sub), "e2e: read_setting(%r) = %r after writing %r" % (sid, got, value), case)
            # every call in an event loop of its own (successive asyncio.run calls), keep-alive on / off: still exactly ONE write per
            # write_setting reaches the inverter, and the value reads back
            if j % 4 == seed % 4 and tn not in rs.GROUPS:
                for keep in (True, False):
                    inv = siminv.make_inverter(fam, tcp, T=1, R=1)
                    inv.set_keep_alive(keep)
                    _, sim = siminv.build_direct(dict(cfg), default=lambda a: mix(seed + 2, a) & 0xFFFF)
                    world = World(ScriptedPeer(siminv.responder_for(inv, sim), [], default=("answer", 0.0)))
                    value2 = nth_value(setting, (mix(seed, j) + 1) % size) if size else value
                    acc.case()
                    acc.nontrivial("e2e-loops", variant, sid, repr(value), tcp, keep)
                    lcase = {"variant": variant, "setting": sid, "value": value if not isinstance(value, datetime) else value.isoformat(), "tcp": tcp, "e2e": True,
                             "seed": seed, "loops": True, "keep": keep}
                    res, now, bad = {}, 0.0, None
                    steps = [("info", lambda: inv.read_device_info()), ("write", lambda: inv.write_setting(sid, value)), ("read", lambda: inv.read_setting(sid)),
                             ("write", lambda: inv.write_setting(sid, value2)), ("read2", lambda: inv.read_setting(sid))]
                    nwrites = []
                    for name, fn in steps:
                        lp = VLoop(world, start=now, max_time=now + 1e5)
                        w0 = all_write_count(sim)
                        o = lp.run(fn())
                        now = lp.vtime
                        lp.shutdown()
                        if o.hang is not None or o.exc is not None:
                            bad = (name, o.hang, o.exc)
                            break
                        res[name] = o.result
                        if name == "write":
                            nwrites.append(all_write_count(sim) - w0)
                    if bad:
                        acc.fail("C17|%s|%s|e2e|loops|%s-failed" % (fam, tn, bad[0]), "each call in its own event loop (keep-alive %s): %r %r" % (keep, bad[1], bad[2]), lcase)
                        continue
                    if any(n != 1 for n in nwrites):
                        acc.fail("C17|%s|%s|e2e|loops|write-count" % (fam, tn), "each call in its own event loop (keep-alive %s): the inverter received %s write requests for the "
                                 "two write_setting(%r, ...) calls, expected [1, 1]" % (keep, nwrites, sid), lcase)
                    elif not (res["read"] == value or rs.same(res["read"], value)) or not (res["read2"] == value2 or rs.same(res["read2"], value2)):
                        acc.fail("C17|%s|%s|e2e|loops|readback-differs" % (fam, tn), "read back %r / %r after writing %r / %r" % (res["read"], res["read2"], value, value2), lcase)
            # another call (a read of an unrelated register) starts while the write request is in flight (answers take 3 ticks): still
            # exactly one write reaches the inverter, and the value reads back
            if j % 4 == (seed + 1) % 4 and tn not in rs.GROUPS:
                import asyncio as _aio
                for keep in (False, True):
                    for off in (0, 1, 2, 4):
                        inv = siminv.make_inverter(fam, tcp, T=1, R=1)
                        inv.set_keep_alive(keep)
                        _, sim = siminv.build_direct(dict(cfg), default=lambda a: mix(seed + 3, a) & 0xFFFF)
                        world = World(ScriptedPeer(siminv.responder_for(inv, sim), [], default=("answer", 3 / 16.0)))
                        lp = VLoop(world, max_time=1e5)
                        acc.case()
                        acc.nontrivial("e2e-overlap", variant, sid, repr(value), tcp, keep, off)
                        ocase = {"variant": variant, "setting": sid, "value": value if not isinstance(value, datetime) else value.isoformat(), "tcp": tcp, "e2e": True,
                                 "seed": seed, "overlap_read": off, "keep": keep}
                        res = {}

                        async def main3():
                            await inv.read_device_info()
                            res["w0"] = all_write_count(sim)

                            async def writer():
                                await inv.write_setting(sid, value)

                            async def reader():
                                await _aio.sleep(off / 16.0 + 1e-6)
                                try:
                                    await (inv.read_sensor("vpv1") if fam != "ES" else inv.read_setting("eco_mode_2_switch"))
                                except Exception:
                                    pass
                            await _aio.gather(writer(), reader())
                            res["nw"] = all_write_count(sim) - res["w0"]
                            res["got"] = await inv.read_setting(sid)

                        o = lp.run(main3())
                        lp.idle()
                        lp.shutdown()
                        if o.hang is not None or o.exc is not None:
                            acc.fail("C17|%s|%s|e2e|overlap|failed" % (fam, tn), "write_setting while a read starts %d ticks later: %r %r" % (off, o.hang, o.exc), ocase)
                        elif res["nw"] != 1:
                            acc.fail("C17|%s|%s|e2e|overlap|write-count" % (fam, tn), "write_setting(%r) while a read of another register starts %d ticks later (keep-alive %s): the inverter "
                                     "received %d write requests, expected exactly 1" % (sid, off, keep, res["nw"]), ocase)
                        elif not (res["got"] == value or rs.same(res["got"], value)):
                            acc.fail("C17|%s|%s|e2e|overlap|readback-differs" % (fam, tn), "read back %r after writing %r" % (res["got"], value), ocase)
            # two writes of a one-byte setting back to back (no read in between) while a second master / the vendor app changed
            # the OTHER half of the shared register between them: the second write must keep what is there NOW
            if setting.size_ == 1:
                own_mask = 0xFF00 if tn == "ByteH" else 0x00FF
                for (w0, v1, w1, v2) in ((0x007F, -1, 0x0015, 0), (0x7F00, 5, 0x1500, -1), (0x1234, 0, 0xFFFF, 1), (0x0000, -1, 0x5AA5, -1)):
                    inv = siminv.make_inverter(fam, tcp, T=1, R=1)
                    _, sim = siminv.build_direct(dict(cfg), default=lambda a: mix(seed + 1, a) & 0xFFFF)
                    set_prior(sim, setting, w0)
                    get = reg_view(sim, setting)[0]
                    peer = ScriptedPeer(siminv.responder_for(inv, sim), [], default=("answer", 0.0))
                    loop = VLoop(World(peer))
                    acc.case()
                    acc.nontrivial("e2e-two-writes", variant, sid, tcp, w0, v1, w1, v2)
                    case = {"e2e": True, "two_writes": [w0, v1, w1, v2], "variant": variant, "setting": sid, "tcp": tcp, "seed": seed}

                    async def main2():
                        await inv.read_device_info()
                        await inv.write_setting(sid, v1)
                        # keep the own half as written, replace the other half (what another master would do)
                        set_prior(sim, setting, (get(setting.offset) & own_mask) | (w1 & ~own_mask & 0xFFFF))
                        await inv.write_setting(sid, v2)

                    out = loop.run(main2())
                    loop.idle()
                    loop.shutdown()
                    if out.hang is not None or out.exc is not None:
                        acc.fail("C17|%s|%s|e2e|two-writes-failed" % (fam, tn), "write, external change, write: %r %r" % (out.hang, out.exc), case)
                        continue
                    now = get(setting.offset)
                    want = (((v2 & 0xFF) << 8) if tn == "ByteH" else (v2 & 0xFF)) | (w1 & ~own_mask & 0xFFFF)
                    if now != want:
                        acc.fail("C17|%s|%s|e2e|other-half-changed" % (fam, tn), "write_setting(%r, %d); the other half of the shared register is then changed "
                                 "externally; write_setting(%r, %d): the register holds %04x, expected %04x" % (sid, v1, sid, v2, now, want), case)
    return acc


def run(ctx):
    ctx.shard(instance_job, [(v, ctx.pick(200, 1500), ctx.seed) for v in VARIANTS], "every encodable setting of every variant x boundary/patterned values")
    jobs = []
    seen = set()
    for v in VARIANTS:
        inv, _ = build(v, 0)
        for sid in settings_of(v):
            s = inv._settings[sid]
            size = domain_size(s)
            if not size:
                continue
            key = (rs.type_name(s), getattr(s, "scale", None), VARIANTS[v]["family"] == "ES") if ctx.quick else (v, sid)
            if key in seen:
                continue
            seen.add(key)
            step = 8192 if size > 256 else 256
            for lo in range(0, size, step):
                jobs.append((v, sid, lo, min(size, lo + step), ctx.seed))
    ctx.shard(sweep_job, jobs, "exhaustive value domains of 1/2-byte settings")
    ctx.exhaustive_parts.append("whole value domain of " + ("one instance of every 1/2-byte setting type (per scale / family)" if ctx.quick
                                                           else "EVERY 1/2-byte setting instance of every variant"))
    ctx.shard(prior_job, [(v, ctx.quick) for v in VARIANTS], "one-byte settings: every value of the other half of the shared register (quick) / every prior word (thorough)")
    ctx.exhaustive_parts.append("one-byte settings x all 256 values of the other register half x 4 own-half values + sentinel words" if ctx.quick
                                else "one-byte settings x all 65,536 prior register words x 5 values")
    ctx.shard(generic_job, [(v, ctx.seed) for v in VARIANTS], "generic 'modbus-N' ids: one write of exactly that register, read back")
    ctx.shard(faulty_preread_job, [(v,) for v in VARIANTS], "one-byte settings whose pre-read is refused / unanswered / answered without payload: no other register (half) may change")
    n = ctx.pick(2400, 60000)
    ctx.shard(hyp_job, [(ctx.seed * 1000 + i, n // 16) for i in range(16)], "hypothesis (variant, setting, value, prior image)")
    ctx.shard(e2e_job, [(v, ctx.seed) for v in VARIANTS], "end-to-end write + read back on the virtual loop (RTU/UDP, Modbus/TCP, AA55)")


def replay(ctx, case):
    if case.get("generic"):
        ctx.acc.merge(generic_job((case["variant"], case["seed"])))
        return
    if case.get("faulty_preread"):
        check_faulty_preread(ctx.acc, case["variant"], case["setting"], case["value"], case["prior_word"], case["faulty_preread"], case.get("tcp", False))
        return
    v = case["value"]
    inv, _ = build(case["variant"], 0)
    tn = rs.type_name(inv._settings[case["setting"]])
    if tn == "Timestamp" and isinstance(v, str):
        v = datetime.fromisoformat(v)
    if case.get("e2e"):
        ctx.acc.merge(e2e_job((case["variant"], case.get("seed", 1))))
        return
    check_write(ctx.acc, case["variant"], case["setting"], v, case.get("salt", 0), case.get("tcp", False), prior_word=case.get("prior_word"), interloper=case.get("interloper", False))
