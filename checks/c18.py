"""C18 - reading never writes, and invalid setter arguments never reach the inverter."""
from __future__ import annotations

import itertools

from vlib import harness, refwire as rw, siminv
from vlib.harness import Acc, run_sync

LEVEL = "exploration"
RULE = ("two families of cases against simulated inverters that log every request: (R) sequences of the read-only API "
        "(read_device_info, read_runtime_data, read_sensor(any listed id), read_setting(any id / modbus-N), read_settings_data, "
        "get_grid_export_limit, get_operation_modes, get_operation_mode, get_ongrid_battery_dod; connect()/discover() end-to-end) "
        "over model configurations and refused-block sets - no function 06/16 and no AA55 02xx/03xx request may appear; (S) "
        "setters with out-of-range arguments (negative export limit, DoD outside 0..100, eco power/SoC outside 0..100, unknown "
        "setting id) - no write-class request at all and ValueError where documented, with in-range control calls that must "
        "produce a write. Read-only call x configuration grids and the integer ranges around the valid intervals are enumerated, "
        "call sequences are sampled by Hypothesis. Non-trivial = sequence exercises a capability fallback/probe or the argument is "
        "within +-2 of an interval end; distinct by the whole case.")
ASSUMPTIONS = [
    "write class = Modbus function 06/16 or any AA55 command whose first byte is 02 or 03 (vendor set commands), as logged by the "
    "simulator after strict parsing of the request",
    "simulated inverters of vlib/siminv.py; configurations as in C14/C15",
]


def write_count(sim):
    if isinstance(sim, siminv.Aa55Sim):
        return len([e for e in sim.log if e[0] == "W"]) + len(sim.modbus.writes())
    return len(sim.writes())


def request_count(sim):
    if isinstance(sim, siminv.Aa55Sim):
        return len(sim.log) + len(sim.modbus.log)
    return len(sim.log)


def writes_of(sim):
    if isinstance(sim, siminv.Aa55Sim):
        return [e for e in sim.log if e[0] == "W"] + sim.modbus.writes()
    return sim.writes()


READ_CALLS = ("read_device_info", "read_runtime_data", "read_settings_data", "get_grid_export_limit", "get_operation_modes",
              "get_operation_mode", "get_ongrid_battery_dod", "read_sensor", "read_setting", "read_setting_modbus", "read_sensor_modbus",
              "read_setting_modbus_wide", "read_sensor_modbus_wide")
# register numbers of the generic 'modbus-N' ids far outside 0..65535 (whatever the library makes of them, it must stay a read):
# carries into the function-code / address bytes, sign, multiples of 65536 plus well-known setting registers
WIDE = [65535, 65536, 65537, 131072 + 47000, 196608, 196608 + 47000, 196608 + 47510, 262143, 393216 + 45222, 851968, 851968 + 47547,
        917503, 1048576 + 47000, (1 << 24) + 6, (1 << 24) * 6 + 47000, (1 << 32) + 6, -1, -47000, -65536 + 47000, 16 << 16, (16 << 16) + 47547, 6 << 16,
        (6 << 16) + 47000, (0x86 << 16) + 1, (0x10 << 24) + 47547]


def wide_register(arg):
    if arg % 3 == 0:
        return WIDE[(arg // 3) % len(WIDE)]
    if arg % 3 == 1:
        return ((arg * 2654435761) >> 3) % (1 << 21)          # anywhere up to 2^21
    return (((arg >> 2) % 64) << 16) + (45000 + (arg * 7919) % 3000)   # k x 65536 + a settings register


def do_read_call(inv, name, arg):
    fam = type(inv).__name__
    if name == "read_sensor":
        ids = [s.id_ for s in inv.sensors()]
        return inv.read_sensor(ids[arg % len(ids)])
    if name == "read_setting":
        ids = [s.id_ for s in inv.settings()]
        return inv.read_setting(ids[arg % len(ids)])
    if name == "read_setting_modbus":
        return inv.read_setting("modbus-%d" % (30000 + arg % 20000))
    if name == "read_sensor_modbus":
        if fam == "ES":
            return inv.read_setting("modbus-%d" % (1793 + arg % 16))
        return inv.read_sensor("modbus-%d" % (30000 + arg % 20000))
    if name == "read_setting_modbus_wide":
        return inv.read_setting("modbus-%d" % wide_register(arg))
    if name == "read_sensor_modbus_wide":
        if fam == "ES":
            return inv.read_setting("modbus-%d" % wide_register(arg + 1))
        return inv.read_sensor("modbus-%d" % wide_register(arg))
    if name == "get_operation_modes":
        return inv.get_operation_modes(bool(arg & 1))
    return getattr(inv, name)()


def run_read_case(acc: Acc, case):
    """case: cfg (family, serial, power, refuse, bm, tcp, firmware), calls: [(name, arg)], image"""
    from goodwe.exceptions import InverterError
    acc.case()
    cfg = dict(case["cfg"])
    fam = cfg["family"]
    inv, sim = siminv.build_direct(cfg, default=case.get("image", 0x0101))
    if fam == "ET":
        sim.set(35184, cfg.get("battery_mode", 1))
    if cfg.get("refuse") or any(c[0] in ("read_device_info",) for c in case["calls"]):
        acc.nontrivial("R", fam, cfg["serial"], cfg.get("rated_power"), tuple(cfg.get("refuse", ())), repr(case["calls"]))
    fails = []
    calls = [("read_device_info", 0)] + [tuple(c) for c in case["calls"]]
    for name, arg in calls:
        if fam == "DT" and name in ("get_operation_mode", "get_ongrid_battery_dod"):
            continue
        w0 = write_count(sim)
        try:
            run_sync(do_read_call(inv, name, arg))
        except (InverterError, ValueError, TypeError, NotImplementedError, KeyError):
            pass  # outcome types are the subject of C09/C11/C16; here only what went on the wire matters
        except Exception as ex:
            acc.cls("R|other-exception|%s" % type(ex).__name__)
        if write_count(sim) != w0:
            fails.append(("C18|%s|read-call-wrote|%s" % (fam, name),
                          "%s(%r) transmitted a write: %s" % (name, arg, writes_of(sim)[w0:][:3]), case))
            break
    if getattr(sim, "bad_requests", None):
        acc.cls("malformed-requests(C03)")
    return fails


def run_entry_case(acc: Acc, case):
    """connect()/discover() end-to-end: only read requests may be transmitted."""
    import goodwe
    from vlib.vloop import ScriptedPeer, VLoop, World
    acc.case()
    cfg = dict(case["cfg"])
    fam = cfg["family"]
    acc.nontrivial("E", case["entry"], fam, cfg["serial"], cfg.get("rated_power"), tuple(cfg.get("refuse", ())), cfg.get("tcp"))
    inv, sim = siminv.build_direct(cfg, default=0x0101)
    if fam == "ES":
        sim.modbus.default = 0x0101
    peer = ScriptedPeer(siminv.responder_for(inv, sim) if fam != "ES" else sim, [], default=("answer", 0.0))
    world = World(peer)
    loop = VLoop(world)
    port = 502 if cfg.get("tcp") else 8899
    if case["entry"] == "connect":
        coro = goodwe.connect("192.0.2.1", port, {"ET": "ET", "DT": "DT", "ES": "ES"}[fam], 0, 1, 0)
    else:
        coro = goodwe.discover("192.0.2.1", port, 1, 0)
    out = loop.run(coro)
    loop.idle()
    loop.shutdown()
    if out.hang is not None:
        return [("C18|%s|entry-hang" % fam, str(out.hang), case)]
    fails = []
    if write_count(sim):
        fails.append(("C18|%s|entry-wrote|%s" % (fam, case["entry"]), "%s transmitted writes %s" % (case["entry"], writes_of(sim)[:3]), case))
    for t, tid, data, failed in world.tx:  # independent of the simulator's own log: classify the raw bytes
        if data[:2] == b"\xaa\x55":
            if data[4] in (2, 3):
                fails.append(("C18|%s|entry-wrote|%s" % (fam, case["entry"]), "AA55 write-class request %s" % data.hex(), case))
        else:
            fc = data[7] if port == 502 else data[1]
            if fc in (6, 16):
                fails.append(("C18|%s|entry-wrote|%s" % (fam, case["entry"]), "Modbus write request %s" % data.hex(), case))
    return fails


# ---------------------------------------------------------------------------------------------
def run_setter_case(acc: Acc, case):
    """case: cfg, setter, args, valid(bool)"""
    acc.case()
    cfg = dict(case["cfg"])
    fam = cfg["family"]
    inv, sim = siminv.build_direct(cfg, default=0)
    if fam == "ES":
        sim.regs = {1793 + i: w for i, w in enumerate((0x0000, 0x173B, 0x0014, 0xFF7F))}
    run_sync(inv.read_device_info())
    setter, args, valid = case["setter"], case["args"], case["valid"]
    near = case.get("near", False)
    if near or valid:
        acc.nontrivial("S", fam, cfg["serial"], setter, tuple(args))
    w0 = write_count(sim)
    exc = None
    try:
        if setter == "set_grid_export_limit":
            run_sync(inv.set_grid_export_limit(args[0]))
        elif setter == "set_ongrid_battery_dod":
            run_sync(inv.set_ongrid_battery_dod(args[0]))
        elif setter == "set_operation_mode":
            run_sync(inv.set_operation_mode(args[0], args[1], args[2]))
        elif setter == "write_setting":
            run_sync(inv.write_setting(args[0], args[1]))
    except Exception as ex:
        exc = ex
    nw = write_count(sim) - w0
    fails = []
    key = "C18|%s|%s" % (fam, setter)
    if valid:
        if nw == 0:
            fails.append((key + "|control-no-write", "in-range call %s%r produced no write (exception %r): the oracle would be vacuous" % (setter, tuple(args), exc), case))
        return fails
    if nw:
        fails.append((key + "|invalid-argument-written", "%s%r transmitted %d write(s): %s" % (setter, tuple(args), nw, writes_of(sim)[w0:][:3]), case))
    documented = setter in ("set_operation_mode", "write_setting")
    if documented and not isinstance(exc, ValueError):
        fails.append((key + "|no-valueerror", "%s%r should raise ValueError, got %r" % (setter, tuple(args), exc), case))
    if not documented and exc is not None and not isinstance(exc, ValueError):
        from goodwe.exceptions import InverterError
        if not (fam == "DT" and isinstance(exc, InverterError)):
            fails.append((key + "|unexpected-exception|%s" % type(exc).__name__, "%s%r raised %r" % (setter, tuple(args), exc), case))
    return fails


# ---------------------------------------------------------------------------------------------
# end-to-end histories: a valid setter, then read-only calls over a faulty network (retries, reconnects)
# ---------------------------------------------------------------------------------------------
E2E_SETTERS = {
    "set_grid_export_limit": lambda inv: inv.set_grid_export_limit(4000),
    "set_ongrid_battery_dod": lambda inv: inv.set_ongrid_battery_dod(30),
    "set_operation_mode_general": lambda inv: inv.set_operation_mode(0),
    "write_setting_switch": lambda inv: inv.write_setting("eco_mode_2_switch", 0),
}
E2E_READS = ("read_runtime_data", "read_settings_data", "get_grid_export_limit", "get_operation_mode", "get_ongrid_battery_dod",
             "read_sensor", "read_setting", "read_device_info")
E2E_FAULTS = {
    "none": {},
    "drop-then-answer": {"script": [["drop"], ["answer", 1]]},
    "garbage-then-answer": {"script": [["garbage", 2], ["answer", 1]]},
    "send-error-then-answer": {"script": [["senderr", "ECONNREFUSED"], ["answer", 1]]},
    "peer-closes-then-answer": {"script": [["eof", 2], ["answer", 1]]},
    "connect-refused-once": {"connect": ["refused"]},
    "connect-refused-twice": {"connect": ["refused", "refused"]},
    "connect-hangs-once": {"connect": ["hangs"]},
    "fragment-then-answer": {"script": [["lone", 9, 2], ["answer", 1]]},
}


def is_write_frame(data: bytes, tcp: bool) -> bool:
    if data[:2] == b"\xaa\x55":
        return len(data) > 4 and data[4] in (2, 3)
    if tcp:
        return len(data) > 7 and data[7] in (6, 16)
    return len(data) > 1 and data[1] in (6, 16)


def run_e2e_history(acc: Acc, case):
    import asyncio
    from vlib.vloop import ScriptedPeer, VLoop, World
    from vlib import netcase
    acc.case()
    cfg = dict(case["cfg"])
    fam = cfg["family"]
    tcp = bool(cfg.get("tcp"))
    acc.nontrivial("H", fam, cfg["serial"], tcp, case["setter"], case["read"], case["fault"], case.get("keep"))
    inv = siminv.make_inverter(fam, tcp, T=1.0, R=2)
    inv.set_keep_alive(bool(case.get("keep")))
    _, sim = siminv.build_direct(dict(cfg), default=0x0101)
    if fam == "ES":
        sim.modbus.default = 0x0101
    peer = ScriptedPeer(siminv.responder_for(inv, sim), [], default=("answer", 0.0))
    world = World(peer)
    loop = VLoop(world, max_time=1e5)
    marks = {}

    async def main():
        await inv.read_device_info()
        if case["setter"] in E2E_SETTERS and not (fam == "DT" and case["setter"] != "set_grid_export_limit"):
            try:
                await E2E_SETTERS[case["setter"]](inv)
            except Exception:
                pass
        f = E2E_FAULTS[case["fault"]]
        peer.set_script(netcase.to_actions(f.get("script", []), 1.0), default=("answer", 0.0))
        world.connect_script = list(f.get("connect", []))
        marks["start"] = len(world.tx)
        try:
            await do_read_call(inv, case["read"], case.get("arg", 3))
        except Exception:
            pass
        marks["end"] = len(world.tx)

    out = loop.run(main())
    loop.idle()
    loop.shutdown()
    if out.hang is not None:
        return [("C18|%s|e2e-hang" % fam, str(out.hang), case)]
    if out.exc is not None:
        return [("C18|%s|e2e-harness|%s" % (fam, type(out.exc).__name__), repr(out.exc), case)]
    fails = []
    for t, tid, data, failed in world.tx[marks.get("start", 0):marks.get("end", 0)]:
        if is_write_frame(data, tcp):
            fails.append(("C18|%s|read-call-wrote|e2e|%s" % (fam, "tcp" if tcp else "udp"),
                          "%s() after %s over a network with fault '%s' transmitted the write frame %s" % (
                              case["read"], case["setter"], case["fault"], data.hex()), case))
            break
    return fails


def run_e2e_concurrent(acc: Acc, case):
    """A read-only call runs in one task WHILE a valid setter runs in another task on the same inverter object (answers take a
    few ticks, so they overlap).  The write frames on the wire must be exactly those the setter produces when it runs alone:
    the reader contributes none."""
    import asyncio
    from vlib.vloop import ScriptedPeer, VLoop, World
    acc.case()
    cfg = dict(case["cfg"])
    fam = cfg["family"]
    tcp = bool(cfg.get("tcp"))
    acc.nontrivial("HC", fam, cfg["serial"], tcp, case["setter"], case["read"], case["offset"], case.get("keep"), case["delay"])

    def execute(with_reader):
        inv = siminv.make_inverter(fam, tcp, T=1.0, R=2)
        inv.set_keep_alive(bool(case.get("keep")))
        _, sim = siminv.build_direct(dict(cfg), default=0x0101)
        if fam == "ES":
            sim.modbus.default = 0x0101
        peer = ScriptedPeer(siminv.responder_for(inv, sim), [], default=("answer", case["delay"] / 16.0))
        world = World(peer)
        loop = VLoop(world, max_time=1e5)
        marks = {}

        async def setter():
            await asyncio.sleep(max(0, -case["offset"]) / 16.0)
            try:
                await E2E_SETTERS[case["setter"]](inv)
            except Exception:
                pass

        async def reader():
            await asyncio.sleep(max(0, case["offset"]) / 16.0)
            try:
                await do_read_call(inv, case["read"], case.get("arg", 3))
            except Exception:
                pass

        async def main():
            await inv.read_device_info()
            marks["start"] = len(world.tx)
            await asyncio.gather(setter(), *([reader(), reader()] if with_reader else []))

        out = loop.run(main())
        loop.idle()
        loop.shutdown()
        if out.hang is not None or out.exc is not None:
            return None, "%r %r" % (out.hang, out.exc)
        return [(d[2:] if tcp else d) for (t, tid, d, failed) in world.tx[marks["start"]:] if is_write_frame(d, tcp)], None

    solo, err = execute(False)
    if err:
        return [("C18|%s|e2e-harness" % fam, "setter alone: " + err, case)]
    both, err = execute(True)
    if err:
        return [("C18|%s|e2e-concurrent-failed" % fam, "setter and reader concurrently: " + err, case)]
    if both != solo:
        extra = [w.hex() for w in both if w not in solo] or [w.hex() for w in both]
        return [("C18|%s|read-call-wrote|concurrent|%s" % (fam, "tcp" if tcp else "udp"),
                 "%s alone transmits %d write frame(s); with %s() running concurrently on the same object %d write frames go out (%s)" % (
                     case["setter"], len(solo), case["read"], len(both), extra[:2]), case)]
    return []


def e2e_concurrent_job(job):
    part, parts = job
    acc = Acc()
    cfgs = [{"family": "ET", "serial": b"9010KETU000W0000", "rated_power": 10000, "refuse": [], "battery_mode": 1, "tcp": False},
            {"family": "ET", "serial": b"9010KETU000W0000", "rated_power": 10000, "refuse": [], "battery_mode": 1, "tcp": True},
            {"family": "DT", "serial": b"9010KDTU000W0000", "refuse": [], "tcp": True},
            {"family": "DT", "serial": b"9010KDTU000W0000", "refuse": [], "tcp": False},
            {"family": "ES", "serial": b"95048ESU000W0000", "firmware": b"2214E"}]
    i = 0
    for cfg in cfgs:
        for setter in E2E_SETTERS:
            if cfg["family"] == "DT" and setter != "set_grid_export_limit":
                continue
            for read in E2E_READS:
                if cfg["family"] == "DT" and read in ("get_operation_mode", "get_ongrid_battery_dod"):
                    continue
                for offset in (-2, 0, 1, 3):
                    for keep in (False, True):
                        i += 1
                        if i % parts != part:
                            continue
                        case = {"concurrent": True, "cfg": cfg, "setter": setter, "read": read, "offset": offset, "keep": keep, "delay": 2 + i % 3, "arg": i}
                        for key, msg, c in run_e2e_concurrent(acc, case):
                            acc.fail(key, msg, c)
                        if len(acc.samples) < 1:
                            acc.sample(case)
    return acc


def e2e_job(job):
    part, parts = job
    acc = Acc()
    cfgs = [{"family": "ET", "serial": b"9010KETU000W0000", "rated_power": 10000, "refuse": [], "battery_mode": 1, "tcp": False},
            {"family": "ET", "serial": b"9010KETU000W0000", "rated_power": 10000, "refuse": [], "battery_mode": 1, "tcp": True},
            {"family": "DT", "serial": b"9010KDTU000W0000", "refuse": [], "tcp": True},
            {"family": "DT", "serial": b"9010KDTU000W0000", "refuse": [], "tcp": False},
            {"family": "ES", "serial": b"95048ESU000W0000", "firmware": b"2214E"}]
    i = 0
    for cfg in cfgs:
        for setter in E2E_SETTERS:
            for read in E2E_READS:
                for fault in E2E_FAULTS:
                    for keep in (False, True):
                        i += 1
                        if i % parts != part:
                            continue
                        if cfg["family"] == "DT" and read in ("get_operation_mode", "get_ongrid_battery_dod"):
                            continue
                        if not cfg.get("tcp") and fault.startswith("connect"):
                            continue
                        case = {"cfg": cfg, "setter": setter, "read": read, "fault": fault, "keep": keep, "arg": i}
                        for key, msg, c in run_e2e_history(acc, case):
                            acc.fail(key, msg, c)
                        if len(acc.samples) < 1 and fault == "connect-refused-once":
                            acc.sample(case)
    return acc


def run_write_then_read(acc: Acc, case):
    """A legitimate write (small values, so that value == register count of a later read is possible), then read-only calls on
    the same object: during the reads nothing but reads may be transmitted."""
    from goodwe.exceptions import InverterError
    acc.case()
    cfg = dict(case["cfg"])
    fam = cfg["family"]
    inv, sim = siminv.build_direct(cfg, default=0x0101)
    run_sync(inv.read_device_info())
    acc.nontrivial("WR", fam, cfg["serial"], case["op"], repr(case.get("args")))
    try:
        op = case["op"]
        if op == "write_setting":
            run_sync(inv.write_setting(case["args"][0], case["args"][1]))
        elif op == "set_grid_export_limit":
            run_sync(inv.set_grid_export_limit(case["args"][0]))
        elif op == "set_ongrid_battery_dod":
            run_sync(inv.set_ongrid_battery_dod(case["args"][0]))
        elif op == "set_operation_mode":
            run_sync(inv.set_operation_mode(case["args"][0]))
    except Exception:
        pass
    fails = []
    for name, arg in case["reads"]:
        if fam == "DT" and name in ("get_operation_mode", "get_ongrid_battery_dod"):
            continue
        w0 = write_count(sim)
        try:
            run_sync(do_read_call(inv, name, arg) if not isinstance(arg, str) else inv.read_setting(arg))
        except (InverterError, ValueError, TypeError, NotImplementedError, KeyError):
            pass
        if write_count(sim) != w0:
            fails.append(("C18|%s|read-call-wrote|after-write" % fam,
                          "%s(%r) after %s%r transmitted a write: %s" % (name, arg, case["op"], tuple(case["args"]), writes_of(sim)[w0:][:2]), case))
            break
    return fails


def write_then_read_job(job):
    part, parts = job
    acc = Acc()
    from vlib import refsensor as rs
    cfgs = [{"family": "ET", "serial": b"9010KETU000W0000", "rated_power": 10000, "refuse": [], "battery_mode": 1, "tcp": False},
            {"family": "ET", "serial": b"9010KETT000W0000", "rated_power": 10000, "refuse": ["eco_v2", "peak_shaving"], "battery_mode": 1, "tcp": True},
            {"family": "DT", "serial": b"9010KDTU000W0000", "refuse": [], "tcp": False},
            {"family": "DT", "serial": b"9010KDSN000W0000", "refuse": [], "tcp": True},
            {"family": "ES", "serial": b"95048ESU000W0000", "firmware": b"2214E"},
            {"family": "ES", "serial": b"95048ESU000W0000", "firmware": b"02041"}]
    generic_reads = [("read_settings_data", 0), ("get_grid_export_limit", 0), ("get_operation_mode", 0), ("get_ongrid_battery_dod", 0),
                     ("read_runtime_data", 0)]
    i = 0
    for cfg in cfgs:
        inv, _ = siminv.build_direct(dict(cfg), default=0)
        run_sync(inv.read_device_info())
        ops = []
        for s in inv.settings():
            if rs.type_name(s) in ("Integer", "IntegerS", "Long", "LongS", "ByteH", "ByteL") and not (cfg["family"] == "ES" and s.offset <= 255):
                for v in (1, 2, 3, 6):
                    ops.append(("write_setting", [s.id_, v], [("read_setting", s.id_)]))
        for v in (1, 2, 6, 125):
            ops.append(("set_grid_export_limit", [v], []))
        if cfg["family"] != "DT":
            for d in (99, 98, 94, 0):
                ops.append(("set_ongrid_battery_dod", [d], []))
            for m in (0, 1, 2, 3):
                ops.append(("set_operation_mode", [m], []))
        for op, args, reads in ops:
            i += 1
            if i % parts != part:
                continue
            case = {"cfg": cfg, "op": op, "args": args, "reads": reads + generic_reads}
            for key, msg, c in run_write_then_read(acc, case):
                acc.fail(key, msg, c)
            if len(acc.samples) < 1:
                acc.sample(case)
    return acc


class _RefuseFrom:
    """From the k-th request of the call on, the inverter answers ILLEGAL DATA ADDRESS for everything touching `rng`
    (registers this firmware turns out not to have) - reads and writes alike."""

    def __init__(self, inner, sim, k, rng):
        self.inner, self.sim, self.k, self.rng, self.n = inner, sim, k, rng, 0

    def respond(self, data):
        if self.n == self.k:
            self.sim.refused.append(self.rng)
        self.n += 1
        return self.inner.respond(data)

    def __getattr__(self, name):
        return getattr(self.inner, name)


DROP_SETTERS = {
    "eco_charge": (lambda inv: inv.set_operation_mode(98, 40, 80), (47515, 47598)),
    "eco_discharge": (lambda inv: inv.set_operation_mode(99, 40, 80), (47515, 47598)),
    "eco_mode": (lambda inv: inv.set_operation_mode(3), (47515, 47598)),
    "general": (lambda inv: inv.set_operation_mode(0), (47515, 47598)),
    "peak_shaving": (lambda inv: inv.set_operation_mode(4, 40, 80), (47589, 47598)),
    "switch": (lambda inv: inv.write_setting("eco_mode_2_switch", 0), (47515, 47598)),
    "group": (lambda inv: inv.write_setting("eco_mode_1", bytes(8)), (47515, 47522)),
    "export_limit": (lambda inv: inv.set_grid_export_limit(3000), (47510, 47510)),
    "dod": (lambda inv: inv.set_ongrid_battery_dod(40), (45356, 45356)),
}


def run_dropped_case(acc: Acc, case):
    """An unknown setting id is never written.  Here the id BECOMES unknown during the call: the inverter starts refusing the
    registers (ILLEGAL DATA ADDRESS) at request k of the setter, the library drops the setting from settings() - and from then
    on it must not transmit a write to it."""
    acc.case()
    cfg = dict(case["cfg"])
    fam = cfg["family"]
    inv, sim = siminv.build_direct(cfg, default=0)
    run_sync(inv.read_device_info())
    fn, rng = DROP_SETTERS[case["setter"]]
    before = {x.id_: (x.offset, max(1, (x.size_ + 1) // 2)) for x in inv.settings()}
    siminv.attach_direct(inv, _RefuseFrom(siminv.responder_for(inv, sim), sim, case["k"], rng))
    n0 = len(sim.log)
    exc = None
    try:
        run_sync(fn(inv))
    except Exception as ex:
        exc = ex
    after = {x.id_ for x in inv.settings()}
    dropped = sorted(set(before) - after)
    entries = sim.log[n0:]
    acc.cls("dropped-during-setter|%d" % len(dropped))
    if dropped:
        acc.nontrivial("dropped", fam, cfg["serial"], case["setter"], case["k"])
    fails = []
    for sid in dropped:
        off, cnt = before[sid]
        # position in the log at which the refusal that made it unknown happened
        first_refusal = next((i for i, e in enumerate(entries) if e[0] == "X" and e[1] == 3 and off <= e[2] < off + cnt), None)
        if first_refusal is None:
            continue
        for e in entries[first_refusal + 1:]:
            wreg = e[1] if e[0] == "W" else (e[2] if e[0] == "X" and e[1] in (6, 16) else None)
            if wreg is not None and off <= wreg < off + cnt:
                fails.append(("C18|%s|write-to-setting-dropped-as-unknown" % fam,
                              "%s: the inverter refused the registers of %r (ILLEGAL DATA ADDRESS) at request %d, the library dropped the id from settings(), "
                              "and then transmitted a write to register %d anyway (call ended with %r)" % (case["setter"], sid, case["k"], wreg, exc), case))
                break
    return fails


def dropped_job(job):
    acc = Acc()
    cfgs = [{"family": "ET", "serial": b"9010KETU000W0000", "rated_power": 10000, "refuse": [], "battery_mode": 1, "tcp": False},
            {"family": "ET", "serial": b"925KETT000W00001", "rated_power": 25000, "refuse": [], "battery_mode": 1, "tcp": True},
            {"family": "ET", "serial": b"9010KETU000W0000", "rated_power": 10000, "refuse": ["eco_v2", "peak_shaving"], "battery_mode": 1, "tcp": False},
            {"family": "ET", "serial": b"95000EHU000W0001", "rated_power": 5000, "refuse": ["peak_shaving"], "battery_mode": 2, "tcp": True}]
    for cfg in cfgs:
        for setter in DROP_SETTERS:
            for k in range(0, 8):
                case = {"dropped": True, "cfg": cfg, "setter": setter, "k": k}
                _apply(acc, case, run_dropped_case)
    acc.sample(case)
    return acc


def _apply(acc, case, fn):
    for key, msg, c in fn(acc, case):
        acc.fail(key, msg, c)


def base_cfgs(quick):
    out = []
    serials = siminv.et_serials()
    picks = serials if not quick else serials[::6] + [b"925KETT000W00001", b"95000EHU000W0001"]
    for serial in picks:
        for power in (10000, 25000):
            for refuse in ((), ("eco_v2", "peak_shaving"), ("battery", "meter_ext2"), ("meter_ext", "mppt", "battery2"), ("peak_shaving",)):
                out.append({"family": "ET", "serial": serial, "rated_power": power, "refuse": list(refuse), "battery_mode": 1 if len(refuse) % 2 == 0 else 0,
                            "tcp": bool(len(out) & 1)})
    for serial in (siminv.dt_serials() if not quick else siminv.dt_serials()[::4]):
        for refuse in ((), ("meter",), ("meter_version", "model")):
            out.append({"family": "DT", "serial": serial, "refuse": list(refuse), "tcp": bool(len(out) & 1)})
    for serial in siminv.es_serials():
        for fw in (b"02041", b"2214E", b"1107E"):
            out.append({"family": "ES", "serial": serial, "firmware": fw})
    return out


def read_grid_job(job):
    part, parts, quick = job
    acc = Acc()
    cfgs = base_cfgs(quick)
    for i, cfg in enumerate(cfgs):
        if i % parts != part:
            continue
        calls = []
        for name in READ_CALLS:
            reps = 1 if name not in ("read_sensor", "read_setting") else (12 if quick else 400)
            if name.endswith("_wide"):
                reps = 3 * len(WIDE) if quick else 1200
            for a in range(reps):
                calls.append([name, a * 7 + i])
        case = {"cfg": cfg, "calls": calls, "image": 0x0101}
        _apply(acc, case, run_read_case)
        case2 = {"cfg": cfg, "calls": [["read_runtime_data", 0], ["read_runtime_data", 0], ["read_settings_data", 0], ["get_operation_mode", 0]], "image": 0x0003}
        _apply(acc, case2, run_read_case)
        if i % (3 if quick else 1) == 0 and cfg["family"] != "ES" or cfg["family"] == "ES":
            for entry in ("connect", "discover"):
                if entry == "discover" and cfg.get("tcp"):
                    continue
                _apply(acc, {"cfg": cfg, "entry": entry}, run_entry_case)
        if len(acc.samples) < 1:
            acc.sample({"cfg": cfg, "calls": calls[:6] + ["..."], "n_calls": len(calls)})
    return acc


def setter_job(job):
    fam, quick = job
    acc = Acc()
    cfgs = [c for c in base_cfgs(True) if c["family"] == fam and not c.get("refuse")][:3]
    if fam == "ET":
        cfgs.append({"family": "ET", "serial": b"9010KETU000W0000", "rated_power": 10000, "refuse": ["eco_v2", "peak_shaving"], "battery_mode": 1})
    for cfg in cfgs:
        rng = lambda lo, hi: range(lo, hi)
        # export limit
        for x in list(rng(-70000, -65530)) + list(rng(-33000, -32760)) + list(rng(-300, 0)) + [-1, -2]:
            _apply(acc, {"cfg": cfg, "setter": "set_grid_export_limit", "args": [x], "valid": False, "near": x >= -2}, run_setter_case)
        for x in (0, 1, 100, 4000):
            _apply(acc, {"cfg": cfg, "setter": "set_grid_export_limit", "args": [x], "valid": True}, run_setter_case)
        if fam != "DT":
            for d in list(rng(-1000, 0)) + list(rng(101, 1001)):
                _apply(acc, {"cfg": cfg, "setter": "set_ongrid_battery_dod", "args": [d], "valid": False, "near": d in (-1, -2, 101, 102)}, run_setter_case)
            for d in (0, 1, 50, 99, 100):
                _apply(acc, {"cfg": cfg, "setter": "set_ongrid_battery_dod", "args": [d], "valid": True}, run_setter_case)
            for mode in (98, 99):
                bad = list(rng(-1000, 0, )) + list(rng(101, 1001))
                step = 1 if not quick else 7
                for p in bad[::step] + [-1, -2, 101, 102]:
                    _apply(acc, {"cfg": cfg, "setter": "set_operation_mode", "args": [mode, p, 50], "valid": False, "near": p in (-1, -2, 101, 102)}, run_setter_case)
                    _apply(acc, {"cfg": cfg, "setter": "set_operation_mode", "args": [mode, 50, p], "valid": False, "near": p in (-1, -2, 101, 102)}, run_setter_case)
                for p, s in ((1, 0), (100, 100), (50, 50), (0, 100)):
                    _apply(acc, {"cfg": cfg, "setter": "set_operation_mode", "args": [mode, p, s], "valid": True}, run_setter_case)
        for sid in ("no_such_setting", "", "eco_mode_5", "grid_export_limitx", "time2", "Modbus-47000", "mod", "work_mode ", "dod2"):
            _apply(acc, {"cfg": cfg, "setter": "write_setting", "args": [sid, 1], "valid": False, "near": True}, run_setter_case)
        _apply(acc, {"cfg": cfg, "setter": "write_setting", "args": ["grid_export_limit" if fam != "ES" else "eco_mode_2_switch", 1], "valid": True}, run_setter_case)
    acc.sample({"cfg": cfgs[0], "setter": "set_operation_mode", "args": [98, 101, 50], "valid": False})
    return acc


def hyp_job(job):
    seed, n = job
    from hypothesis import strategies as st
    acc = Acc()
    cfgs = base_cfgs(False)

    @st.composite
    def cases(draw):
        cfg = dict(draw(st.sampled_from(cfgs)))
        if cfg["family"] == "ET":
            cfg["refuse"] = draw(st.lists(st.sampled_from(siminv.ET_OPTIONAL), unique=True, max_size=4).map(sorted))
            cfg["battery_mode"] = draw(st.integers(0, 3))
        if draw(st.integers(0, 4)) == 0:
            fam = cfg["family"]
            kind = draw(st.sampled_from(("export", "dod", "mode_p", "mode_s", "unknown") if fam != "DT" else ("export", "unknown")))
            if kind == "export":
                return {"cfg": cfg, "setter": "set_grid_export_limit", "args": [draw(st.integers(-70000, -1))], "valid": False}
            if kind == "dod":
                return {"cfg": cfg, "setter": "set_ongrid_battery_dod", "args": [draw(st.one_of(st.integers(-1000, -1), st.integers(101, 1000)))], "valid": False}
            if kind in ("mode_p", "mode_s"):
                bad = draw(st.one_of(st.integers(-1000, -1), st.integers(101, 1000)))
                good = draw(st.integers(0, 100))
                return {"cfg": cfg, "setter": "set_operation_mode", "args": [draw(st.sampled_from((98, 99))), bad if kind == "mode_p" else good,
                                                                             good if kind == "mode_p" else bad], "valid": False}
            sid = draw(st.text(alphabet="abcdefghijklmnopqrstuvwxyz_0123456789-", max_size=20).filter(lambda t: not t.startswith("modbus")))
            return {"cfg": cfg, "setter": "write_setting", "args": [sid + "?", draw(st.integers(-5, 5))], "valid": False}
        calls = draw(st.lists(st.tuples(st.sampled_from(READ_CALLS), st.integers(0, 10 ** 6)).map(list), min_size=1, max_size=12))
        return {"cfg": cfg, "calls": calls, "image": draw(st.sampled_from((0, 0x0101, 0x0003, 0xFFFF, 0x0303)))}

    def body(case):
        if len(acc.samples) < 3:
            acc.sample(case)
        if "setter" in case:
            return run_setter_case(acc, case)
        return run_read_case(acc, case)

    harness.hyp_search(acc, body, [cases()], seed=seed, max_examples=n)
    return acc


def run(ctx):
    ctx.shard(read_grid_job, [(p, 16, ctx.quick) for p in range(16)], "read-only API x configurations (every call; ids swept), connect/discover end-to-end")
    ctx.shard(setter_job, [(f, ctx.quick) for f in ("ET", "DT", "ES")], "setters: integer ranges around the valid intervals + in-range control calls")
    ctx.shard(dropped_job, [0], "setters while the inverter starts refusing the setting's registers at request k: an id dropped as unknown is not written afterwards")
    ctx.shard(e2e_concurrent_job, [(p, 16) for p in range(16)], "end-to-end: a read-only call running concurrently with a valid setter on the same object (write frames == the setter's own)")
    ctx.shard(write_then_read_job, [(p, 16) for p in range(16)], "a legitimate write of a small value to every integer setting / via every setter, then read-only calls on the same object")
    ctx.shard(e2e_job, [(p, 16) for p in range(16)], "end-to-end histories: valid setter, then each read-only call over each network fault (retries / reconnects), raw frames classified at the peer")
    n = ctx.pick(2400, 50000)
    ctx.shard(hyp_job, [(ctx.seed * 1000 + i, n // 16) for i in range(16)], "hypothesis call sequences / setter arguments")


def replay(ctx, case):
    if case.get("dropped"):
        _apply(ctx.acc, case, run_dropped_case)
        return
    if case.get("concurrent"):
        _apply(ctx.acc, case, run_e2e_concurrent)
    elif "reads" in case:
        _apply(ctx.acc, case, run_write_then_read)
    elif "fault" in case:
        _apply(ctx.acc, case, run_e2e_history)
    elif "setter" in case:
        _apply(ctx.acc, case, run_setter_case)
    elif "entry" in case:
        _apply(ctx.acc, case, run_entry_case)
    else:
        _apply(ctx.acc, case, run_read_case)
