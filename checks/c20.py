"""C20 - inverter objects are independent; returned values do not change afterwards."""
from __future__ import annotations

from vlib import harness, siminv
from vlib.harness import Acc, run_sync

LEVEL = "exploration"
RULE = ("case = two inverter objects (variants ET eco-v1 / eco-v2 / 745 platform, ES eco-v1 / eco-v2, DT; UDP or TCP) on two "
        "simulated inverters with different register contents (incl. eco-mode group 1 contents of every kind), two call sequences "
        "over {read_runtime_data, read_setting(any kind incl. eco/schedule groups), write_setting, set_operation_mode(all modes), "
        "get_operation_mode, read_settings_data} and an interleaving of the two. Each case is executed three times - A alone, B "
        "alone, interleaved - each in a freshly imported copy of the library. Oracle: per object the byte sequence of requests "
        "(Modbus/TCP transaction id masked) and the sequence of results (snapshotted at return time) are identical in the solo and "
        "the interleaved run, and every returned value still has its return-time snapshot at the end of the run. Pairs x op-kind "
        "grids are enumerated, sequences/merges are sampled by Hypothesis. Non-trivial = both sequences touch an eco/schedule "
        "group setting (or use TCP) and the merge alternates at least twice; distinct by the whole case.")
ASSUMPTIONS = [
    "a fresh import of the goodwe package (sys.modules purged) is an uncontaminated baseline",
    "results are compared through a structural snapshot (str() and the public attributes of group objects, repr of plain values)",
    "simulated inverters (vlib/siminv.py); call-level interleavings on the direct path, truly overlapping requests end-to-end on the virtual loop",
]

VARIANTS = {
    "ET-v1": dict(family="ET", serial=b"9010KETU000W0000", refuse=["eco_v2", "peak_shaving"]),
    "ET-v2": dict(family="ET", serial=b"9010KETU000W0000", refuse=[]),
    "ET-745": dict(family="ET", serial=b"9010KETT000W0000", refuse=[]),
    "ET-v2-tcp": dict(family="ET", serial=b"9010KETU000W0000", refuse=[], tcp=True),
    "ES-v1": dict(family="ES", serial=b"95048ESU000W0000", firmware=b"02047"),
    "ES-v2": dict(family="ES", serial=b"95048ESU000W0000", firmware=b"2214E"),
    "DT": dict(family="DT", serial=b"9010KDTU000W0000", refuse=[], tcp=True),
    "DT-single": dict(family="DT", serial=b"9010KDSN000W0000", refuse=[]),
}
# variants used by addr_pair_job only (non-default communication addresses; not part of the all-pairs grid)
ADDR_VARIANTS = {
    "ET-v2@21": dict(family="ET", serial=b"9010KETU000W0000", refuse=[], comm_addr=0x21),
    "ET-v2-tcp@21": dict(family="ET", serial=b"9010KETU000W0000", refuse=[], tcp=True, comm_addr=0x21),
    "DT@21": dict(family="DT", serial=b"9010KDTU000W0000", refuse=[], comm_addr=0x21),
    "DT@f7": dict(family="DT", serial=b"9010KDTU000W0000", refuse=[], comm_addr=0xF7),
    "ET-v2@7f": dict(family="ET", serial=b"9010KETU000W0000", refuse=[], comm_addr=0x7F),
}
V2 = ("ET-v2", "ET-745", "ET-v2-tcp", "ES-v2", "ET-v2@21", "ET-v2-tcp@21", "ET-v2@7f")
ALL_VARIANTS = dict(VARIANTS, **ADDR_VARIANTS)
GROUP_CONTENT = ("off", "window", "fulltime-charge", "peak", "unset", "garbage", "badpower", "badsoc", "badpower745", "badsoc745")
# bad*: times, days and the flavour (on/off) byte are fine, only power or SoC is out of range - decoding fails late


def group_bytes(v2: bool, kind: str, salt: int):
    if v2:
        return {
            "off": bytes.fromhex("300030000000006400640000"), "window": bytes((8, salt % 60, 10, 30, 0xFF, 0x3E)) + bytes.fromhex("ffec00500000"),
            "fulltime-charge": bytes.fromhex("0000173bff7fffce00500000"), "peak": bytes.fromhex("0000173bfc7f00c800640000"),
            "unset": bytes.fromhex("300030005500006400640000"), "garbage": bytes.fromhex("632563256325632563256325"),
            "badpower": bytes.fromhex("0000173bff7f7fff00500000"), "badsoc": bytes.fromhex("0000173bff7fffceffff0000"),
            "badpower745": bytes.fromhex("0000173bf97f7fff00500fff"), "badsoc745": bytes.fromhex("0000173bf97fff38ffff0fff"),
        }[kind]
    return {
        "off": bytes.fromhex("3000300000640000"), "window": bytes((8, salt % 60, 10, 30)) + bytes.fromhex("ffecff3e"),
        "fulltime-charge": bytes.fromhex("0000173bffceff7f"), "peak": bytes.fromhex("0000173b0028ff7f"),
        "unset": bytes.fromhex("0a000b00001e0041"), "garbage": bytes.fromhex("6325632563256325"),
        "badpower": bytes.fromhex("0000173b7fffff7f"), "badsoc": bytes.fromhex("0000173b8000ff7f"),
        "badpower745": bytes.fromhex("0000173b7fffff7f"), "badsoc745": bytes.fromhex("0000173b8000ff7f"),
    }[kind]


def _poke(sim, op):
    """The inverter's own registers move on between two calls (battery state, meter counters ...): op = ["poke", block, salt].
    Only the registers of ONE runtime block change, the others keep their content."""
    _, block, salt = op
    if isinstance(sim, siminv.Aa55Sim):
        for i in range(len(sim.runtime) // 2, len(sim.runtime)):
            sim.runtime[i] = (sim.runtime[i] + salt + i) & 0xFF
        return None
    lo, hi = {"battery": (37000, 37024), "meter": (36000, 36045), "mppt": (35301, 35362), "battery2": (39000, 39022),
              "dt_meter": (30195, 30210), "running_tail": (35180, 35224)}[block]
    for a in range(lo, hi):
        sim.set(a, (sim.get(a) * 3 + salt + a) & 0x7FFF)
    return None


def op_call(inv, op):
    from goodwe.inverter import OperationMode
    k = op[0]
    if k == "runtime":
        return inv.read_runtime_data()
    if k == "settings_data":
        return inv.read_settings_data()
    if k == "get_mode":
        return inv.get_operation_mode()
    if k == "read_setting":
        return inv.read_setting(op[1])
    if k == "write_setting":
        return inv.write_setting(op[1], op[2] if not isinstance(op[2], dict) else bytes.fromhex(op[2]["hex"]))
    if k == "set_mode":
        return inv.set_operation_mode(OperationMode(op[1]), op[2], op[3])
    raise ValueError(k)


def snap(v, depth=0):
    """Structural snapshot of a returned value."""
    if isinstance(v, dict):
        return {k: snap(x, depth + 1) for k, x in v.items()}
    if hasattr(v, "id_") and hasattr(v, "offset"):  # a sensor-definition object handed out as value (eco / schedule group)
        d = {k: repr(x) for k, x in sorted(vars(v).items()) if not k.startswith("_")}
        try:
            d["__str__"] = str(v)
        except Exception as ex:
            d["__str__"] = "str() raised %s" % type(ex).__name__
        d["__type__"] = type(v).__name__
        return d
    return repr(v)


class LoggingResponder:
    def __init__(self, inner, tcp):
        self.inner, self.tcp, self.log = inner, tcp, []

    def respond(self, data):
        self.log.append(bytes(data[2:]) if self.tcp else bytes(data))
        return self.inner.respond(data)


def execute(case, which):
    """Run the case for objects in `which` ("A", "B" or "AB") in a freshly imported library. Returns per-object records."""
    harness.import_goodwe(fresh=True)
    objs = {}
    for name in which:
        spec = case["objects"][name]
        cfg = dict(ALL_VARIANTS[spec["variant"]])
        salt = spec["salt"]
        inv, sim = siminv.build_direct(cfg, default=lambda a, s=salt: (a * 31 + s * 17 + 3) & 0x7FFF)
        if cfg["family"] == "ES":
            sim.regs = _Regs(lambda a, s=salt: (a * 29 + s) & 0x7FFF)
        lr = LoggingResponder(siminv.responder_for(inv, sim), cfg.get("tcp", False))
        siminv.attach_direct(inv, lr)
        if not spec.get("no_info"):      # no_info: the application built the object itself and never identified it
            run_sync(inv.read_device_info())
        # eco group contents
        if cfg["family"] != "DT" and not spec.get("no_info"):
            v2 = spec["variant"] in V2
            for n, kind in enumerate(spec["groups"], start=1):
                s = inv._settings["eco_mode_%d" % n]
                data = group_bytes(v2, kind, salt + n)
                if isinstance(sim, siminv.Aa55Sim) and s.offset < 30000:
                    for i in range(0, len(data), 2):
                        sim.reg_set(s.offset + i // 2, (data[i] << 8) | data[i + 1])
                elif isinstance(sim, siminv.Aa55Sim):
                    sim.modbus.set_bytes(s.offset, data)
                else:
                    sim.set_bytes(s.offset, data)
            if cfg["family"] == "ET":
                sim.set(47000, 3)
        for lo_hi in spec.get("refuse_regs", ()):      # this inverter's firmware does not know these registers
            (sim.modbus if isinstance(sim, siminv.Aa55Sim) else sim).refused.append(tuple(lo_hi))
        lr.log.clear()
        objs[name] = {"inv": inv, "sim": sim, "lr": lr, "results": [], "values": [], "req_marks": []}
    order = case["merge"] if which == "AB" else [which] * len(case["seq"][which])
    pos = {"A": 0, "B": 0}
    for name in order:
        if name not in objs or pos[name] >= len(case["seq"][name]):
            continue
        op = case["seq"][name][pos[name]]
        pos[name] += 1
        o = objs[name]
        try:
            val = _poke(o["sim"], op) if op[0] == "poke" else run_sync(op_call(o["inv"], op))
            rec = ("ok", snap(val))
            o["values"].append((len(o["results"]), val, rec[1]))
        except Exception as ex:
            rec = ("exc", type(ex).__name__ + ":" + str(ex)[:80])
        o["results"].append(rec)
        o["req_marks"].append(len(o["lr"].log))
    # leftover ops (merge shorter than sequences)
    for name in which:
        o = objs[name]
        while pos[name] < len(case["seq"][name]):
            op = case["seq"][name][pos[name]]
            pos[name] += 1
            try:
                val = _poke(o["sim"], op) if op[0] == "poke" else run_sync(op_call(o["inv"], op))
                rec = ("ok", snap(val))
                o["values"].append((len(o["results"]), val, rec[1]))
            except Exception as ex:
                rec = ("exc", type(ex).__name__ + ":" + str(ex)[:80])
            o["results"].append(rec)
            o["req_marks"].append(len(o["lr"].log))
    out = {}
    for name, o in objs.items():
        changed = []
        for idx, val, at_return in o["values"]:
            now = snap(val)
            if now != at_return:
                changed.append((idx, at_return, now))
        out[name] = {"results": o["results"], "requests": list(o["lr"].log), "marks": o["req_marks"], "changed": changed}
    return out


class _Regs(dict):
    def __init__(self, fn):
        super().__init__()
        self.fn = fn

    def get(self, a, default=0):
        return dict.get(self, a, self.fn(a))


def touches_group(seq):
    return any((op[0] in ("read_setting", "write_setting") and "eco_mode" in op[1]) or op[0] in ("set_mode", "settings_data") for op in seq)


def run_case(acc: Acc, case):
    acc.case()
    merge = case["merge"]
    alternations = sum(1 for a, b in zip(merge, merge[1:]) if a != b)
    if touches_group(case["seq"]["A"]) and touches_group(case["seq"]["B"]) and alternations >= 2:
        acc.nontrivial(repr(case["objects"]), repr(case["seq"]), "".join(merge))
    fails = []
    try:
        solo = {"A": execute(case, "A")["A"], "B": execute(case, "B")["B"]}
        both = execute(case, "AB")
    finally:
        harness.import_goodwe(fresh=True)
    for name in ("A", "B"):
        s, b = solo[name], both[name]
        seq = case["seq"][name]
        # -- values changing after they were returned (already in the solo run: aliasing inside one object) --------
        for run_name, rec in (("solo", s), ("interleaved", b)):
            for idx, at_return, now in rec["changed"]:
                tname = at_return.get("__type__", "value") if isinstance(at_return, dict) else "value"
                if isinstance(at_return, dict) and "__type__" not in at_return:
                    inner = [k for k in at_return if at_return[k] != now.get(k)]
                    tname = "dict:" + (at_return[inner[0]].get("__type__", "value") if inner and isinstance(at_return[inner[0]], dict) else "value")
                diff = _first_diff(at_return, now)
                fails.append(("C20|returned-value-changed|%s" % tname,
                              "%s run, object %s: the value returned by step %d %r changed afterwards: %s" % (run_name, name, idx, seq[idx], diff), case))
                break
        # -- divergence between solo and interleaved ----------------------------------------------------------------
        if s["requests"] != b["requests"]:
            step = _first_step(s, b)
            op = seq[step] if step is not None and step < len(seq) else ["?"]
            own_group = case["objects"][name]["groups"][0] if case["objects"][name].get("groups") else None
            sub = "set_mode-emulated|own-group-%s" % own_group if (op[0] == "set_mode" and op[1] in (98, 99)) else op[0]
            fails.append(("C20|request-divergence|%s" % sub,
                          "object %s transmits different requests when interleaved with the other object (first at step %s %r)" % (name, step, op), case))
        elif [r for r in s["results"]] != [r for r in b["results"]]:
            step = next(i for i, (x, y) in enumerate(zip(s["results"], b["results"])) if x != y)
            op = seq[step]
            fails.append(("C20|result-divergence|%s" % op[0],
                          "object %s returns a different result at step %d %r when interleaved: %s" % (name, step, op, _first_diff(s["results"][step][1], b["results"][step][1])), case))
    seen, out = set(), []
    for f in fails:
        if f[0] not in seen:
            seen.add(f[0])
            out.append(f)
    return out


def _first_diff(a, b):
    if isinstance(a, dict) and isinstance(b, dict):
        for k in a:
            if a.get(k) != b.get(k):
                return "%s: %s" % (k, _first_diff(a.get(k), b.get(k)))
        return "keys differ"
    return "%r -> %r" % (a, b)


def _first_step(s, b):
    prev = 0
    for i, (ms, mb) in enumerate(zip(s["marks"], b["marks"])):
        if s["requests"][prev:ms] != b["requests"][(b["marks"][i - 1] if i else 0):mb]:
            return i
        prev = ms
    return None


# ---------------------------------------------------------------------------------------------
# end-to-end variant: the two objects are used by two concurrent tasks on one event loop (requests truly overlap)
# ---------------------------------------------------------------------------------------------
def execute_e2e(case, which):
    import asyncio
    from vlib.vloop import MultiPeer, ScriptedPeer, VLoop, World
    harness.import_goodwe(fresh=True)
    hosts = {"A": "192.0.2.1", "B": "192.0.2.2"}
    objs, peers = {}, {}
    for name in which:
        spec = case["objects"][name]
        cfg = dict(VARIANTS[spec["variant"]])
        salt = spec["salt"]
        inv = siminv.make_inverter(cfg["family"], cfg.get("tcp", False), T=1.0, R=1, host=hosts[name])
        _, sim = siminv.build_direct(dict(cfg), default=lambda a, s=salt: (a * 31 + s * 17 + 3) & 0x7FFF)
        if cfg["family"] == "ES":
            sim.regs = _Regs(lambda a, s=salt: (a * 29 + s) & 0x7FFF)
        default = ("answer", spec.get("latency", 1) / 16.0)
        if spec.get("frag"):     # this inverter delivers every answer in two pieces
            cut, d1, d2 = spec["frag"]
            default = ("frag", cut, d1 / 16.0, d2 / 16.0)
        peers[hosts[name]] = ScriptedPeer(siminv.responder_for(inv, sim), [], default=default)
        if spec.get("keep") is not None:
            inv.set_keep_alive(spec["keep"])
        objs[name] = {"inv": inv, "sim": sim, "results": [], "tcp": cfg.get("tcp", False)}
    world = World(MultiPeer(peers))
    if case.get("phases"):
        # every phase is an event loop of its own (successive asyncio.run calls of the application); in phase i each object performs
        # its i-th operation, the objects taking turns in the order given for that phase
        now = 0.0
        hang = exc = None
        for i, order in enumerate(case["phases"]):
            lp = VLoop(world, start=now, max_time=now + 1e5)

            async def phase(i=i, order=order):
                if i == 0:
                    for name in which:
                        await objs[name]["inv"].read_device_info()
                for name in order:
                    if name not in which or i >= len(case["seq"][name]):
                        continue
                    o = objs[name]
                    try:
                        val = await op_call(o["inv"], case["seq"][name][i])
                        o["results"].append(("ok", snap(val)))
                    except Exception as ex:
                        o["results"].append(("exc", type(ex).__name__ + ":" + str(ex)[:80]))

            out = lp.run(phase())
            now = lp.vtime
            lp.shutdown()
            if out.hang or out.exc:
                hang, exc = out.hang, out.exc
                break
        res = {}
        for name in which:
            o = objs[name]
            tids = {tr.tid for tr in world.transports if tr._addr[0] == hosts[name]}
            reqs = [(d[2:] if o["tcp"] else d) for (t, tid, d, failed) in world.tx if tid in tids]
            res[name] = {"results": o["results"], "requests": reqs, "hang": repr(hang) if hang else None, "exc": repr(exc) if exc else None}
        return res
    loop = VLoop(world, max_time=1e5)

    async def runner(name):
        o = objs[name]
        await asyncio.sleep(case["objects"][name].get("start", 0) / 16.0)
        for op in case["seq"][name]:
            try:
                val = await op_call(o["inv"], op)
                o["results"].append(("ok", snap(val)))
            except Exception as ex:
                o["results"].append(("exc", type(ex).__name__ + ":" + str(ex)[:80]))

    async def main():
        for name in which:
            await objs[name]["inv"].read_device_info()
        await asyncio.gather(*[runner(n) for n in which])

    out = loop.run(main())
    loop.idle()
    loop.shutdown()
    res = {}
    for name in which:
        o = objs[name]
        tids = {tr.tid for tr in world.transports if tr._addr[0] == hosts[name]}
        reqs = [(d[2:] if o["tcp"] else d) for (t, tid, d, failed) in world.tx if tid in tids]
        res[name] = {"results": o["results"], "requests": reqs, "hang": repr(out.hang) if out.hang else None,
                     "exc": repr(out.exc) if out.exc else None}
    return res


def run_case_e2e(acc: Acc, case):
    acc.case()
    acc.nontrivial("e2e", repr(case["objects"]), repr(case["seq"]))
    try:
        solo = {"A": execute_e2e(case, "A")["A"], "B": execute_e2e(case, "B")["B"]}
        both = execute_e2e(case, "AB")
    finally:
        harness.import_goodwe(fresh=True)
    fails = []
    for name in ("A", "B"):
        s, b = solo[name], both[name]
        if b["hang"] or b["exc"] or s["hang"] or s["exc"]:
            fails.append(("C20|e2e|run-failed", "%r / %r" % (s, b), case))
            continue
        if s["requests"] != b["requests"]:
            fails.append(("C20|e2e|request-divergence|%s" % VARIANTS[case["objects"][name]["variant"]]["family"],
                          "object %s transmits %d requests alone and %d when the other object is active at the same time "
                          "(first difference at request %d)" % (name, len(s["requests"]), len(b["requests"]),
                                                                next((i for i, (x, y) in enumerate(zip(s["requests"], b["requests"])) if x != y),
                                                                     min(len(s["requests"]), len(b["requests"])))), case))
        elif s["results"] != b["results"]:
            fails.append(("C20|e2e|result-divergence|%s" % VARIANTS[case["objects"][name]["variant"]]["family"],
                          "object %s returns different results when the other object is active at the same time" % name, case))
    return fails


def e2e_job(job):
    part, parts = job
    acc = Acc()
    names = list(VARIANTS)
    i = 0
    for va in names:
        for vb in names:
            for (la, lb, start_b) in ((2, 3, 1), (1, 6, 0), (5, 1, 2)):
                i += 1
                if i % parts != part:
                    continue
                plain = lambda v: ([["runtime"], ["read_setting", "grid_export_limit"], ["write_setting", "grid_export_limit", 30 + i % 50],
                                    ["read_setting", "grid_export_limit"], ["runtime"]])
                case = {"e2e": True,
                        "objects": {"A": {"variant": va, "salt": i % 97, "latency": la, "start": 0, "groups": []},
                                    "B": {"variant": vb, "salt": (i * 3) % 89 + 1, "latency": lb, "start": start_b, "groups": []}},
                        "seq": {"A": plain(va), "B": plain(vb)}, "merge": []}
                for key, msg, c in run_case_e2e(acc, case):
                    acc.fail(key, msg, c)
                if len(acc.samples) < 1:
                    acc.sample(case)
                if i % 3 == 1:      # one of the three latency settings of every pair of variants
                    # several event loops in a row (asyncio.run per operation), keep-alive on / off, the objects taking turns in varying order
                    for keep in (True, False):
                        pc = {"e2e": True, "phases": ["AB", "BA", "AB", "BA"],
                              "objects": {"A": dict(case["objects"]["A"], keep=keep), "B": dict(case["objects"]["B"], keep=(keep if i % 4 < 2 else not keep))},
                              "seq": {"A": [["runtime"], ["read_setting", "grid_export_limit"], ["runtime"], ["read_setting", "grid_export_limit"]],
                                      "B": [["read_setting", "grid_export_limit"], ["runtime"], ["runtime"], ["read_setting", "grid_export_limit"]]}, "merge": []}
                        for key, msg, c in run_case_e2e(acc, pc):
                            acc.fail(key, msg, c)
                if i % 3 == 0:
                    # both inverters deliver their answers in two datagrams / segments; the calls of the two objects overlap
                    fc = {"e2e": True, "objects": {"A": dict(case["objects"]["A"], frag=[9, la, la + 4]), "B": dict(case["objects"]["B"], frag=[(9, 14, 30)[i % 3], lb, lb + 3])},
                          "seq": {"A": [["runtime"], ["read_setting", "grid_export_limit"], ["runtime"]], "B": [["runtime"], ["read_setting", "grid_export_limit"], ["runtime"]]}, "merge": []}
                    for key, msg, c in run_case_e2e(acc, fc):
                        acc.fail(key, msg, c)
    return acc


def _apply(acc, case):
    if case.get("e2e"):
        for key, msg, c in run_case_e2e(acc, case):
            acc.fail(key, msg, c)
        return
    for key, msg, c in run_case(acc, case):
        acc.fail(key, msg, c)


def seq_for(variant, style, salt):
    fam = VARIANTS[variant]["family"]
    if fam == "DT":
        return [["runtime"], ["read_setting", "grid_export_limit"], ["write_setting", "grid_export_limit", 40 + salt % 50], ["read_setting", "time"], ["runtime"]]
    if style == 0:
        return [["read_setting", "eco_mode_1"], ["runtime"], ["read_setting", "eco_mode_2"], ["read_setting", "eco_mode_1"], ["get_mode"]]
    if style == 1:
        return [["read_setting", "eco_mode_1"], ["set_mode", 98, 30 + salt % 60, 80], ["read_setting", "eco_mode_1"], ["get_mode"], ["settings_data"]]
    if style == 2:
        return [["set_mode", 99, 20 + salt % 70, 100], ["get_mode"], ["read_setting", "eco_mode_1"], ["set_mode", 0, 100, 100], ["get_mode"]]
    if style == 3:
        return [["write_setting", "eco_mode_2_switch", 0], ["read_setting", "eco_mode_2"], ["read_setting", "eco_mode_2_switch"],
                ["write_setting", "eco_mode_3", {"hex": group_bytes(variant in V2, "window", salt).hex()}], ["read_setting", "eco_mode_3"]]
    return [["settings_data"], ["read_setting", "eco_mode_4"], ["set_mode", 3, 100, 100], ["get_mode"], ["runtime"]]


def grid_job(job):
    part, parts, quick = job
    acc = Acc()
    names = list(VARIANTS)
    i = 0
    for va in names:
        for vb in names:
            for ga in (GROUP_CONTENT if not quick else (GROUP_CONTENT[(names.index(va) * 7 + names.index(vb)) % len(GROUP_CONTENT)],)):
                for style in range(5):
                    i += 1
                    if i % parts != part:
                        continue
                    gb = GROUP_CONTENT[(i * 5 + 1) % len(GROUP_CONTENT)]
                    sa, sb = seq_for(va, style, i), seq_for(vb, (style + i) % 5, i + 7)
                    merge = []
                    for k in range(max(len(sa), len(sb))):
                        merge += ["A", "B"] if (k + i) % 3 else ["B", "A"]
                    case = {"objects": {"A": {"variant": va, "salt": i % 97, "groups": [ga, "off", "window", "off"]},
                                        "B": {"variant": vb, "salt": (i * 3) % 89 + 1, "groups": [gb, "window", "off", "peak"]}},
                            "seq": {"A": sa, "B": sb}, "merge": merge}
                    _apply(acc, case)
                    if len(acc.samples) < 1:
                        acc.sample(case)
    return acc


def platform_pair_job(job):
    """The two ET platforms encode eco groups differently (x1 / x10): all combinations of group-1 contents of both objects,
    one object only reading, the other using the emulated modes."""
    part, parts = job
    acc = Acc()
    i = 0
    for va, vb in (("ET-v2", "ET-745"), ("ET-745", "ET-v2"), ("ES-v2", "ET-745"), ("ET-745", "ES-v2")):
        for ga in GROUP_CONTENT:
            for gb in GROUP_CONTENT:
                for style_b in (1, 2):
                    i += 1
                    if i % parts != part:
                        continue
                    sa = [["read_setting", "eco_mode_1"], ["read_setting", "eco_mode_2"], ["get_mode"], ["read_setting", "eco_mode_1"]]
                    sb = seq_for(vb, style_b, i)
                    merge = ["A", "B", "A", "B", "A", "B", "A", "B", "B"]
                    case = {"objects": {"A": {"variant": va, "salt": i % 97, "groups": [ga, "off", "window", "off"]},
                                        "B": {"variant": vb, "salt": (i * 3) % 89 + 1, "groups": [gb, "window", "off", "peak"]}},
                            "seq": {"A": sa, "B": sb}, "merge": merge}
                    _apply(acc, case)
    return acc


def refusal_pair_job(job):
    """Two objects of the same class; the firmware of A's inverter refuses (ILLEGAL DATA ADDRESS) some setting registers that
    B's inverter knows.  What A learns about its inverter must not change what B transmits or returns."""
    part, parts = job
    acc = Acc()
    i = 0
    for va, vb in (("DT", "DT"), ("DT", "DT-single"), ("DT-single", "DT"), ("ET-v2", "ET-v2"), ("ET-v2", "ET-745"), ("ET-v1", "ET-v2"), ("ES-v2", "ES-v2")):
        harness.import_goodwe(fresh=True)
        inv, _ = siminv.build_direct(dict(VARIANTS[va]), default=0)
        run_sync(inv.read_device_info())
        sets_a = [x for x in inv.settings() if x.offset > 30000]
        inv_b, _ = siminv.build_direct(dict(VARIANTS[vb]), default=0)
        run_sync(inv_b.read_device_info())
        ids_b = {x.id_ for x in inv_b.settings()}
        common = [x for x in sets_a if x.id_ in ids_b]
        for start in range(0, 6):
            chosen = common[start::6][:6]
            if not chosen:
                continue
            for style in (0, 1, 2):
                i += 1
                if i % parts != part:
                    continue
                refuse = [[x.offset, x.offset + max(1, (x.size_ + 1) // 2) - 1] for x in chosen]
                sa = [["read_setting", x.id_] for x in chosen] + ([["settings_data"]] if style == 2 else [])
                sb = [["read_setting", x.id_] for x in chosen] + [["runtime"]]
                if style == 0:
                    merge = ["A"] * len(sa) + ["B"] * len(sb)
                elif style == 1:
                    merge = [m for pair in zip(["A"] * len(sa), ["B"] * len(sa)) for m in pair] + ["B"]
                else:
                    merge = ["B", "A", "A", "B"] + ["A"] * len(sa) + ["B"] * len(sb)
                case = {"objects": {"A": {"variant": va, "salt": i % 97, "groups": ["off", "off", "window", "off"], "refuse_regs": refuse},
                                    "B": {"variant": vb, "salt": (i * 3) % 89 + 1, "groups": ["window", "window", "off", "peak"]}},
                        "seq": {"A": sa, "B": sb}, "merge": merge}
                acc.nontrivial("refusal-pair", va, vb, start, style)
                _apply(acc, case)
                if style != 2 and not va.startswith("ES"):
                    # the same with objects that were never identified (no read_device_info(): the import-time definitions are in use)
                    c2 = {"objects": {k: dict(v, no_info=True) for k, v in case["objects"].items()}, "seq": case["seq"], "merge": case["merge"]}
                    acc.nontrivial("refusal-pair-unidentified", va, vb, start, style)
                    _apply(acc, c2)
                if len(acc.samples) < 1:
                    acc.sample(case)
    harness.import_goodwe(fresh=True)
    return acc


def addr_pair_job(job):
    """Objects that differ in communication address (and transport) read the same ids / the same generic registers."""
    part, parts = job
    acc = Acc()
    i = 0
    pairs = (("ET-v2", "ET-v2@21"), ("ET-v2@21", "ET-v2"), ("DT", "DT@21"), ("DT@21", "DT"), ("ET-v2", "DT@f7"), ("DT", "ET-v2@7f"),
             ("ET-v2@21", "DT@21"), ("ET-v2-tcp", "ET-v2-tcp@21"), ("ET-v2-tcp@21", "ET-v2"))
    for va, vb in pairs:
        for style in (0, 1, 2):
            i += 1
            if i % parts != part:
                continue
            common = [["read_setting", "modbus-40000"], ["read_setting", "grid_export_limit"], ["runtime"], ["read_setting", "modbus-47000"],
                      ["read_setting", "modbus-35100"], ["read_setting", "time"]]
            sa, sb = list(common), list(common)
            if style == 0:
                merge = ["A"] * len(sa) + ["B"] * len(sb)
            elif style == 1:
                merge = [m for pair in zip(["A"] * len(sa), ["B"] * len(sb)) for m in pair]
            else:
                merge = ["B", "A", "A", "B", "B", "A", "A", "B", "A", "B", "B", "A"]
            case = {"objects": {"A": {"variant": va, "salt": i % 97, "groups": ["off", "off", "window", "off"]},
                                "B": {"variant": vb, "salt": (i * 3) % 89 + 1, "groups": ["window", "window", "off", "peak"]}},
                    "seq": {"A": sa, "B": sb}, "merge": merge}
            acc.nontrivial("addr-pair", va, vb, style)
            _apply(acc, case)
            if len(acc.samples) < 1:
                acc.sample(case)
    return acc


def poll_poke_job(job):
    """One object is polled repeatedly while the registers of one block change between the polls (the other blocks stay
    byte-identical); the dictionaries returned earlier must keep their content.  The second object polls in between."""
    part, parts = job
    acc = Acc()
    i = 0
    for va in VARIANTS:
        fam = VARIANTS[va]["family"]
        blocks = {"ET": ("battery", "meter", "mppt", "running_tail"), "DT": ("dt_meter",), "ES": ("battery",)}[fam]
        for vb in ("ET-v2", "DT", "ES-v2"):
            for block in blocks:
                for style in (0, 1):
                    i += 1
                    if i % parts != part:
                        continue
                    sa = [["runtime"], ["poke", block, 7], ["runtime"], ["poke", block, 11], ["runtime"], ["runtime"]]
                    sb = [["runtime"], ["poke", {"ET": "battery", "DT": "dt_meter", "ES": "battery"}[VARIANTS[vb]["family"]], 5], ["runtime"]]
                    merge = (["A"] * len(sa) + ["B"] * len(sb)) if style == 0 else ["A", "B", "A", "A", "B", "A", "B", "A", "A"]
                    case = {"objects": {"A": {"variant": va, "salt": i % 97, "groups": ["off", "off", "window", "off"]},
                                        "B": {"variant": vb, "salt": (i * 3) % 89 + 1, "groups": ["window", "window", "off", "peak"]}},
                            "seq": {"A": sa, "B": sb}, "merge": merge}
                    acc.nontrivial("poll-poke", va, vb, block, style)
                    _apply(acc, case)
                    if len(acc.samples) < 1:
                        acc.sample(case)
    return acc


def hyp_job(job):
    seed, n = job
    from hypothesis import strategies as st
    acc = Acc()
    names = list(VARIANTS)
    eco_ids = ["eco_mode_%d" % i for i in (1, 2, 3, 4)] + ["eco_mode_%d_switch" % i for i in (1, 2, 3, 4)]

    def op_strategy(variant):
        fam = VARIANTS[variant]["family"]
        if fam == "DT":
            return st.one_of(st.just(["runtime"]), st.just(["read_setting", "grid_export_limit"]), st.just(["read_setting", "time"]), st.just(["runtime"]),
                             st.tuples(st.just("poke"), st.just("dt_meter"), st.integers(1, 50)).map(list),
                             st.tuples(st.just("write_setting"), st.just("grid_export_limit"), st.integers(0, 100)).map(list))
        plain = ["work_mode", "grid_export_limit", "battery_discharge_depth"] if fam == "ET" else ["work_mode", "grid_export_limit", "dod"]
        return st.one_of(
            st.just(["runtime"]), st.just(["settings_data"]), st.just(["get_mode"]), st.just(["runtime"]),
            st.tuples(st.just("poke"), st.sampled_from(("battery", "meter", "mppt", "running_tail") if fam == "ET" else ("battery",)), st.integers(1, 50)).map(list),
            st.tuples(st.just("read_setting"), st.sampled_from(eco_ids + plain)).map(list),
            st.tuples(st.just("set_mode"), st.sampled_from((0, 1, 2, 3, 98, 99, 98, 99)), st.integers(1, 100), st.integers(0, 100)).map(list),
            st.tuples(st.just("write_setting"), st.sampled_from(eco_ids[4:]), st.sampled_from((0, -1, 1))).map(list),
            st.tuples(st.just("write_setting"), st.sampled_from(eco_ids[:4]), st.sampled_from(("window", "off", "fulltime-charge")).map(
                lambda k, v=variant: {"hex": group_bytes(v in V2, k, 5).hex()})).map(list))

    @st.composite
    def cases(draw):
        va, vb = draw(st.sampled_from(names)), draw(st.sampled_from(names))
        sa = draw(st.lists(op_strategy(va), min_size=2, max_size=6))
        sb = draw(st.lists(op_strategy(vb), min_size=2, max_size=6))
        merge = draw(st.permutations(["A"] * len(sa) + ["B"] * len(sb)))
        groups = st.lists(st.sampled_from(GROUP_CONTENT), min_size=4, max_size=4)
        return {"objects": {"A": {"variant": va, "salt": draw(st.integers(0, 99)), "groups": draw(groups)},
                            "B": {"variant": vb, "salt": draw(st.integers(100, 199)), "groups": draw(groups)}},
                "seq": {"A": sa, "B": sb}, "merge": list(merge)}

    def body(case):
        if len(acc.samples) < 3:
            acc.sample(case)
        return run_case(acc, case)

    harness.hyp_search(acc, body, [cases()], seed=seed, max_examples=n, max_buckets=8)
    return acc


def run(ctx):
    ctx.shard(grid_job, [(p, 16, ctx.quick) for p in range(16)], "all ordered variant pairs x group-1 contents x 5 sequence styles, alternating merges (3 fresh library imports per case)")
    ctx.shard(platform_pair_job, [(p, 16) for p in range(16)], "cross-platform pairs (x1 / x10 eco encodings): all group-1 content combinations, reader vs emulated-mode writer")
    ctx.shard(addr_pair_job, [(p, 16) for p in range(16)], "pairs that differ in communication address / transport reading the same ids and generic registers")
    ctx.shard(poll_poke_job, [(p, 16) for p in range(16)], "repeated polls of one object while one register block changes between the polls (earlier results must keep their content)")
    ctx.shard(refusal_pair_job, [(p, 16) for p in range(16)], "same-class pairs where only A's inverter refuses some setting registers (reads of the same ids on both)")
    ctx.shard(e2e_job, [(p, 16) for p in range(16)], "end-to-end: both objects driven by concurrent tasks on one virtual loop (overlapping requests, per-peer latency)")
    n = ctx.pick(160, 8000)
    ctx.shard(hyp_job, [(ctx.seed * 1000 + i, n // 16) for i in range(16)], "hypothesis sequences and merges")


def replay(ctx, case):
    _apply(ctx.acc, case)
