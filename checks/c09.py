"""C09 - failures surface only as InverterError, with a correct consecutive-failure count."""
from __future__ import annotations

import itertools

from vlib import harness, netcase, refwire as rw, siminv
from vlib.harness import Acc
from vlib.vloop import ScriptedPeer, VLoop, World

LEVEL = "exploration"
RULE = ("three families of cases: (A) public coroutines of ET/DT/ES objects (and connect/discover/search_inverters) run against a "
        "simulated inverter behind a scripted network: per-transmission faults from C04's alphabet plus OS errors "
        "(ECONNREFUSED, ENETUNREACH, EHOSTUNREACH, ECONNRESET, EPERM) raised by the send, delivered later, or delivered after the "
        "request completed (keep-alive), TCP connect failures; (B) ALL histories over {success, failed, rejected} up to length 8 "
        "on one Inverter object, checking consecutive_failures_count against a reference counter; (C) arbitrary bytes as "
        "checksum-valid identification payloads (AA55 device info / discovery answer of any length, ET/DT device-info and DT "
        "model-name blocks). Non-trivial = case contains an OS error or a non-ASCII identification byte or >= 2 failures in the "
        "history; distinct by the whole case.")
ASSUMPTIONS = [
    "a rejected request (exception frame) neither counts as failure nor resets the counter (DESIGN.md D3)",
    "ValueError is an accepted outcome of read_sensor/read_setting-based calls when the inverter answered with a Modbus "
    "exception (documented 'unknown sensor/setting' contract); an invalid (non-exception) answer on Modbus/TCP may surface as "
    "RequestRejectedException('') (DESIGN.md D9)",
    "vlib/vloop.py models the asyncio callback contract; vlib/siminv.py simulators answer every well-formed request",
]
ERRS = ("ECONNREFUSED", "ENETUNREACH", "EHOSTUNREACH", "ECONNRESET", "EPERM")
EPS = 1e-9


# ---------------------------------------------------------------------------------------------
# building an inverter + world
# ---------------------------------------------------------------------------------------------
def make_sim(family, ident=None):
    if family == "ET":
        sim = siminv.make_et_sim(default=0x0101)
        if ident is not None:
            sim.set_bytes(0x88b8, ident)
        return sim
    if family == "DT":
        sim = siminv.make_dt_sim(default=0x0101)
        if ident is not None:
            sim.set_bytes(0x7531, ident[:80])
            if len(ident) > 80:
                sim.set_bytes(0x9ced, ident[80:96])
        return sim
    return siminv.Aa55Sim(device_info=ident)


def make_inverter(family, port, T, R, keep):
    import goodwe
    cls = {"ET": goodwe.ET, "DT": goodwe.DT, "ES": goodwe.ES}[family]
    inv = cls("192.0.2.1", port, 0, T, R)
    inv.set_keep_alive(keep)
    return inv


def responder(family, port, sim):
    if family == "ES":
        return sim
    return siminv.TcpSimResponder(sim) if port == 502 else siminv.RtuSimResponder(sim)


APIS = {
    "read_device_info": lambda inv: inv.read_device_info(),
    "read_runtime_data": lambda inv: inv.read_runtime_data(),
    "read_sensor": lambda inv: inv.read_sensor("vpv1"),
    "read_setting": lambda inv: inv.read_setting("grid_export_limit"),
    "read_setting_modbus": lambda inv: inv.read_setting("modbus-47000"),
    "write_setting": lambda inv: inv.write_setting("grid_export_limit", 100),
    "read_settings_data": lambda inv: inv.read_settings_data(),
    "get_grid_export_limit": lambda inv: inv.get_grid_export_limit(),
    "set_grid_export_limit": lambda inv: inv.set_grid_export_limit(4000),
    "get_operation_mode": lambda inv: inv.get_operation_mode(),
    "set_operation_mode": lambda inv: inv.set_operation_mode(0),
    "set_operation_mode_eco_charge": lambda inv: inv.set_operation_mode(98, 50, 80),
    "get_ongrid_battery_dod": lambda inv: inv.get_ongrid_battery_dod(),
    "set_ongrid_battery_dod": lambda inv: inv.set_ongrid_battery_dod(40),
    "send_command": lambda inv: inv.send_command(bytes.fromhex("aa55c07f0102000241"), lambda r: len(r) > 2),
}
UNSUPPORTED = {"DT": {"get_operation_mode", "set_operation_mode", "set_operation_mode_eco_charge", "get_ongrid_battery_dod",
                      "set_ongrid_battery_dod"}}


def run_api_case(acc: Acc, case):
    """case: family, port, keep, T, R, apis: [names], script: [...], default: action, connect: [...], latency"""
    import goodwe
    from goodwe.exceptions import InverterError, RequestFailedException
    acc.case()
    family, port, T, R = case["family"], case["port"], case["T"], case["R"]
    script = case["script"]
    flat = []
    for a in script:
        flat.extend(a[1] if a[0] == "combo" else [a])
    has_os_error = any(a[0] in ("senderr", "recverr", "reset") for a in flat) or any(
        c != "ok" for c in case.get("connect", []))
    if has_os_error:
        acc.nontrivial("A", family, port, case["keep"], T, R, tuple(case["apis"]), repr(script), repr(case.get("connect")),
                       case.get("latency", 0), repr(case.get("default")))
    for a in flat:
        acc.cls("A|action|" + a[0])
    sim = make_sim(family)
    peer = ScriptedPeer(responder(family, port, sim), netcase.to_actions(script, T),
                        default=netcase.to_actions([case.get("default", ["answer", 1])], T)[0])
    entry = case.get("entry")
    world = World(peer, connect_latency=case.get("latency", 0), connect_script=case.get("connect") if entry else None)
    loop = VLoop(world, max_time=1e5)
    fails = []
    outcomes = []

    async def main():
        import asyncio
        if entry == "connect":
            seq = [lambda: goodwe.connect("192.0.2.1", port, {"ET": "ET", "DT": "DT", "ES": "ES"}[family], 0, T, R)]
        elif entry == "discover":
            seq = [lambda: goodwe.discover("192.0.2.1", port, T, R)]
        elif entry == "search":
            seq = [lambda: goodwe.search_inverters()]
        else:
            inv = make_inverter(family, port, T, R, case["keep"])
            # precondition of every other call (goodwe.connect does the same): a successful read_device_info().
            # It runs on a fault-free network; the fault script starts with the calls under test.
            peer.set_script([], default=("answer", 0.0))
            await inv.read_device_info()
            peer.set_script(netcase.to_actions(script, T), default=netcase.to_actions([case.get("default", ["answer", 1])], T)[0])
            world.connect_script = list(case.get("connect") or [])
            seq = [(lambda n=n: APIS[n](inv)) for n in case["apis"]]
        for f in seq:
            try:
                await f()
                outcomes.append(("ok", None))
            except asyncio.CancelledError as ex:
                outcomes.append(("CancelledError", ex))
            except BaseException as ex:  # noqa
                outcomes.append((type(ex).__name__, ex))
            if case.get("gap"):
                await asyncio.sleep(netcase.secs(case["gap"], T))

    out = loop.run(main())
    loop.idle()
    errors = list(loop.errors)
    loop.shutdown()
    names = case["apis"] if not entry else [entry]
    if out.hang is not None:
        return [("C09|A|hang|%s" % family, "public call never completes: %s" % out.hang, case)]
    if out.exc is not None:
        return [("C09|A|harness|%s" % type(out.exc).__name__, repr(out.exc), case)]
    had_exc_frame = any(a[0] == "exc" for a in flat)
    for name, (kind, ex) in zip(names, outcomes):
        acc.cls("A|outcome|%s" % kind)
        if kind == "ok" or isinstance(ex, InverterError):
            continue
        if isinstance(ex, ValueError) and had_exc_frame and not isinstance(ex, UnicodeError):
            continue
        where = _innermost_goodwe_frame(ex)
        kname = "raw-OSError" if isinstance(ex, OSError) else kind
        fails.append(("C09|A|%s|%s" % (kname, where),
                      "%s(%s) raised %r instead of an InverterError (%s)" % (name, family, ex, where), case))
    for ctx_ in errors:
        ex = ctx_.get("exception")
        fails.append(("C09|A|unhandled-in-callback|%s" % type(ex).__name__,
                      "exception left unhandled in an event-loop callback: %r (%s)" % (ex, ctx_.get("message")), case))
    if script and all(a[0] == "drop" for a in script) and case.get("default", [""])[0] == "drop" and outcomes:
        kind, ex = outcomes[0]
        if kind == "ok" and not entry and names[0] not in ("set_grid_export_limit",):
            pass  # some calls swallow failures by design (capability probes); nothing to assert
    return fails


def _innermost_goodwe_frame(ex):
    tb = ex.__traceback__
    where = "?"
    while tb is not None:
        fn = tb.tb_frame.f_code.co_filename
        if "/goodwe/" in fn:
            where = "%s:%s" % (fn.rsplit("/", 1)[-1], tb.tb_frame.f_code.co_name)
        tb = tb.tb_next
    return where


def _apply(acc, case, fn):
    for key, msg, c in fn(acc, case):
        acc.fail(key, msg, c)


def api_names(family):
    return [n for n in APIS if n not in UNSUPPORTED.get(family, ())]


def enum_a_job(job):
    family, port, keep = job
    acc = Acc()
    T, R = 1.0, 1
    single = []
    for e in ERRS:
        single += [["senderr", e], ["recverr", 3, e], ["combo", [["answer", 1], ["recverr", 5, e]]],
                   ["combo", [["answer", 1], ["recverr", 40, e]]]]
    single += [["combo", [["answer", 1], ["exc", 5, 6]]], ["combo", [["exc", 1, 6], ["exc", 2, 6]]], ["combo", [["answer", 1], ["answer", 3]]],
               ["combo", [["answer", 1], ["garbage", 4]]], ["combo", [["exc", 1, 2], ["answer", 3]]]]
    single += [["drop"], ["garbage", 2], ["short", 2], ["bad", 2], ["exc", 2, 2], ["exc", 2, 6], ["lone", 9, 2], ["dup", 1, 2],
               ["eof", 2], ["reset", 2, "ECONNRESET"], ["answer", 20]]
    for api in api_names(family):
        for pos in (0, 1, 2):
            for a in single:
                script = [["answer", 1]] * pos + [a]
                for default in (["answer", 1], ["drop"]):
                    case = {"family": family, "port": port, "keep": keep, "T": T, "R": R, "apis": [api],
                            "script": script, "default": default, "latency": 0}
                    _apply(acc, case, run_api_case)
                    if len(acc.samples) < 1 and a[0] == "combo":
                        acc.sample(case)
    for entry in ("connect", "discover", "search"):
        for pos in (0, 1, 3):
            for a in single:
                for default in (["answer", 1], ["drop"]):
                    case = {"family": family, "port": port, "keep": keep, "T": T, "R": R, "apis": [], "entry": entry,
                            "script": [["answer", 1]] * pos + [a], "default": default, "latency": 0}
                    if entry == "search" and (family != "ET" or port != 8899):
                        continue
                    _apply(acc, case, run_api_case)
    if port == 502:
        for connect in itertools.product(("refused", "unreachable", "hostunreach", "hangs", "timeout", "ok"), repeat=2):
            for api in ("read_device_info", "read_runtime_data", "write_setting"):
                case = {"family": family, "port": port, "keep": keep, "T": T, "R": R, "apis": [api], "script": [],
                        "default": ["answer", 1], "connect": list(connect), "latency": 1}
                _apply(acc, case, run_api_case)
    return acc


def hyp_a_job(job):
    seed, n = job
    from hypothesis import strategies as st
    acc = Acc()
    tick = st.integers(0, 40)
    err = st.sampled_from(ERRS)
    simple = st.one_of(
        st.just(["drop"]), st.tuples(st.just("answer"), tick).map(list), st.tuples(st.just("garbage"), tick).map(list),
        st.tuples(st.just("short"), tick).map(list), st.tuples(st.just("bad"), tick).map(list),
        st.tuples(st.just("exc"), tick, st.sampled_from((1, 2, 3, 4, 6, 11, 77))).map(list),
        st.tuples(st.just("lone"), st.integers(1, 20), tick).map(list),
        st.tuples(st.just("frag"), st.integers(1, 20), tick, tick).map(list),
        st.tuples(st.just("dup"), tick, tick).map(list), st.tuples(st.just("eof"), tick).map(list),
        st.tuples(st.just("reset"), tick, err).map(list), st.tuples(st.just("senderr"), err).map(list),
        st.tuples(st.just("recverr"), tick, err).map(list))
    action = st.one_of(simple, st.lists(simple, min_size=2, max_size=3).map(lambda l: ["combo", l]))

    @st.composite
    def cases(draw):
        family = draw(st.sampled_from(("ET", "DT", "ES")))
        port = 8899 if family == "ES" else draw(st.sampled_from((8899, 502)))
        c = {"family": family, "port": port, "keep": draw(st.booleans()), "T": draw(st.sampled_from((0.5, 1.0, 2.0))),
             "R": draw(st.integers(0, 3)), "apis": draw(st.lists(st.sampled_from(api_names(family)), min_size=1, max_size=4)),
             "script": draw(st.lists(action, max_size=8)), "default": draw(st.sampled_from((["answer", 1], ["drop"], ["answer", 1]))),
             "latency": draw(st.integers(0, 3)), "gap": draw(st.sampled_from((0, 0, 3, 50)))}
        if port == 502:
            c["connect"] = draw(st.lists(st.sampled_from(("ok", "ok", "ok", "refused", "unreachable", "hostunreach", "hangs")), max_size=4))
        ent = draw(st.sampled_from((None, None, None, "connect", "discover", "search")))
        if ent:
            c["entry"] = ent
        return c

    def body(case):
        if len(acc.samples) < 3:
            acc.sample(case)
        return run_api_case(acc, case)

    harness.hyp_search(acc, body, [cases()], seed=seed, max_examples=n, max_buckets=6)
    return acc


# ---------------------------------------------------------------------------------------------
# (B) consecutive_failures_count over all histories
# ---------------------------------------------------------------------------------------------
def run_history(acc: Acc, case):
    """case: family, port, keep, hist: string over S/F/R"""
    from goodwe.exceptions import RequestFailedException, RequestRejectedException
    acc.case()
    hist = case["hist"]
    if hist.count("F") >= 2:
        acc.nontrivial("B", case["family"], case["port"], case["keep"], hist)
    family, port = case["family"], case["port"]
    T, R = 0.5, case.get("R", 0)
    sim = make_sim(family)
    peer = ScriptedPeer(responder(family, port, sim), [], default=("drop",))
    world = World(peer)
    loop = VLoop(world, max_time=1e5)
    inv = make_inverter(family, port, T, R, case["keep"])
    obs = []

    async def main():
        for ch in hist:
            if ch == "S":
                peer.set_script([("answer", 0.0)], default=("answer", 0.0))
            elif ch == "F":
                peer.set_script([], default=("drop",))
            elif ch == "E":  # failed by a transport error instead of silence
                peer.set_script([("senderr", "ECONNREFUSED" if family != "ET" or port != 502 else "EPIPE")], default=("drop",))
            else:
                peer.set_script([("exc", 0.0, 6)], default=("exc", 0.0, 6))
            try:
                if family == "ES":
                    await inv.read_setting("modbus-1793")
                else:
                    await inv.read_setting("modbus-47000")
                obs.append(("ok", None))
            except Exception as ex:
                obs.append((type(ex).__name__, ex))

    out = loop.run(main())
    loop.idle()
    errors = list(loop.errors)
    loop.shutdown()
    if out.hang is not None or out.exc is not None:
        return [("C09|B|hang", "history %s: %r %r" % (hist, out.hang, out.exc), case)]
    fails = []
    count = 0
    for i, (ch, (kind, ex)) in enumerate(zip(hist, obs)):
        if ch == "S":
            count = 0
            if kind != "ok":
                fails.append(("C09|B|success-step-failed|%s" % kind, "step %d of %s: %r" % (i, hist, ex), case))
                break
        elif ch == "R":
            if kind != "RequestRejectedException":
                fails.append(("C09|B|rejected-step|%s" % kind, "step %d of %s gave %s" % (i, hist, kind), case))
                break
        else:  # "F" and "E"
            count += 1
            if kind != "RequestFailedException":
                fails.append(("C09|B|failed-step|%s" % kind, "step %d of %s gave %s" % (i, hist, kind), case))
                break
            got = ex.consecutive_failures_count
            if got != count:
                fails.append(("C09|B|wrong-count", "history %s step %d: consecutive_failures_count=%r, %d failed requests "
                                                   "since the last success" % (hist, i, got, count), case))
                break
    if errors:
        fails.append(("C09|B|unhandled-in-callback|%s" % type(errors[0].get("exception")).__name__, repr(errors[0]), case))
    return fails


def run_free_history(acc: Acc, case):
    """History of single-request calls, each with its own free fault script.  The expected counter follows the OBSERVED outcomes:
    success -> 0, RequestFailedException -> +1 (and must carry exactly that number), RequestRejectedException -> unchanged (D3)."""
    from goodwe.exceptions import InverterError, RequestFailedException, RequestRejectedException
    acc.case()
    family, port, T, R = case["family"], case["port"], case["T"], case["R"]
    acc.nontrivial("Bfree", family, port, case["keep"], T, R, repr(case["steps"]))
    sim = make_sim(family)
    peer = ScriptedPeer(responder(family, port, sim), [], default=("drop",))
    world = World(peer)
    loop = VLoop(world, max_time=1e5)
    inv = make_inverter(family, port, T, R, case["keep"])
    obs = []

    async def main():
        import asyncio
        for st_ in case["steps"]:
            peer.set_script(netcase.to_actions(st_["script"], T), default=netcase.to_actions([st_.get("default", ["drop"])], T)[0])
            world.connect_script = list(st_.get("connect", []))
            try:
                await inv.read_setting("modbus-1793" if family == "ES" else "modbus-47000")
                obs.append(("ok", None))
            except asyncio.CancelledError as ex:
                obs.append(("CancelledError", ex))
            except BaseException as ex:  # noqa
                obs.append((type(ex).__name__, ex))
            if st_.get("gap"):
                await asyncio.sleep(netcase.secs(st_["gap"], T))

    out = loop.run(main())
    loop.idle()
    loop.shutdown()
    if out.hang is not None or out.exc is not None:
        return [("C09|B|hang", "free history: %r %r" % (out.hang, out.exc), case)]
    fails = []
    count = 0
    for i, (kind, ex) in enumerate(obs):
        acc.cls("Bfree|%s" % kind)
        if kind == "ok":
            count = 0
        elif isinstance(ex, RequestFailedException):
            count += 1
            if ex.consecutive_failures_count != count:
                fails.append(("C09|B|wrong-count", "free history step %d: consecutive_failures_count=%r, %d failed requests since the last "
                              "success (outcomes so far %s)" % (i, ex.consecutive_failures_count, count, [k for k, _ in obs[:i + 1]]), case))
                break
        elif isinstance(ex, (RequestRejectedException, ValueError)):
            pass
        elif not isinstance(ex, InverterError):
            fails.append(("C09|A|%s|%s" % ("raw-OSError" if isinstance(ex, OSError) else kind, _innermost_goodwe_frame(ex)),
                          "read_setting raised %r in a free history" % (ex,), case))
            break
    return fails


def run_concurrent_history(acc: Acc, case):
    """A sequential prefix (S/F) and then 2-4 OVERLAPPING requests on one inverter object (they are served one after the other in
    arrival order).  Processed in completion order the counter rule is the same: success -> 0, failure -> previous + 1."""
    import asyncio
    from goodwe.exceptions import RequestFailedException
    acc.case()
    family, port = case["family"], case["port"]
    T, R = 0.5, 0
    acc.nontrivial("Bconc", family, port, case["keep"], case["prefix"], case["group"], tuple(case["offsets"]))
    sim = make_sim(family)
    actions = []
    for ch in case["prefix"] + case["group"]:
        actions.append(("answer", 0.125) if ch == "S" else ("drop",))
    peer = ScriptedPeer(responder(family, port, sim), actions, default=("drop",))
    world = World(peer)
    loop = VLoop(world, max_time=1e5)
    inv = make_inverter(family, port, T, R, case["keep"])
    done = []

    async def one(tag, delay):
        await asyncio.sleep(delay)
        try:
            await inv.read_setting("modbus-1793" if family == "ES" else "modbus-47000")
            done.append((loop.vtime, tag, "ok", None))
        except BaseException as ex:  # noqa
            done.append((loop.vtime, tag, type(ex).__name__, ex))

    async def main():
        for i, ch in enumerate(case["prefix"]):
            await one("p%d" % i, 0)
        await asyncio.gather(*[one("g%d" % i, off / 16.0) for i, off in enumerate(case["offsets"][:len(case["group"])])])

    out = loop.run(main())
    loop.idle()
    loop.shutdown()
    if out.hang is not None or out.exc is not None:
        return [("C09|B|hang", "concurrent history: %r %r" % (out.hang, out.exc), case)]
    count = 0
    for t, tag, kind, ex in done:      # completion order (the list is appended as the calls finish)
        if kind == "ok":
            count = 0
        elif isinstance(ex, RequestFailedException):
            count += 1
            if ex.consecutive_failures_count != count:
                return [("C09|B|wrong-count|overlapping-requests", "prefix %s then overlapping requests %s (start offsets %s): call %s finished at %r with "
                         "consecutive_failures_count=%r, %d failed requests since the last success (completion order %s)" % (
                             case["prefix"], case["group"], case["offsets"], tag, t, ex.consecutive_failures_count, count,
                             [(g, k) for _, g, k, _ in done]), case)]
        else:
            return [("C09|A|%s|%s" % (kind, _innermost_goodwe_frame(ex)), "read_setting raised %r in a concurrent history" % (ex,), case)]
    return []


def conc_job(job):
    family, port, keep = job
    acc = Acc()
    for prefix in ("", "S", "F", "FF", "SF", "FS"):
        for n in (2, 3, 4):
            for group in itertools.product("SF", repeat=n):
                for offsets in ((0, 0, 0, 0), (0, 1, 2, 3), (0, 3, 3, 9)):
                    case = {"conc": True, "family": family, "port": port, "keep": keep, "prefix": prefix, "group": "".join(group), "offsets": list(offsets)}
                    _apply(acc, case, run_concurrent_history)
    acc.sample({"conc": True, "family": family, "port": port, "keep": keep, "prefix": "FF", "group": "SF", "offsets": [0, 1, 2, 3]})
    return acc


def hyp_b_job(job):
    seed, n = job
    from hypothesis import strategies as st
    acc = Acc()
    tick = st.one_of(st.integers(0, 15), st.integers(17, 40))
    err = st.sampled_from(ERRS)
    simple = st.one_of(
        st.just(["drop"]), st.tuples(st.just("answer"), tick).map(list), st.tuples(st.just("garbage"), tick).map(list),
        st.tuples(st.just("bad"), tick).map(list), st.tuples(st.just("exc"), tick, st.sampled_from((1, 2, 4, 6, 11))).map(list),
        st.tuples(st.just("lone"), st.integers(1, 20), tick).map(list), st.tuples(st.just("frag"), st.integers(1, 20), tick, tick).map(list),
        st.tuples(st.just("dup"), tick, tick).map(list), st.tuples(st.just("eof"), tick).map(list),
        st.tuples(st.just("reset"), tick, err).map(list), st.tuples(st.just("senderr"), err).map(list), st.tuples(st.just("recverr"), tick, err).map(list))

    @st.composite
    def cases(draw):
        family = draw(st.sampled_from(("ET", "DT", "ES")))
        port = 8899 if family == "ES" else draw(st.sampled_from((8899, 502)))
        conn = st.lists(st.sampled_from(("ok", "ok", "refused", "unreachable", "hostunreach", "hangs", "gaierror") if port == 502 else ("ok", "ok", "ok", "unreachable", "gaierror")), max_size=3)
        step = st.fixed_dictionaries({"script": st.lists(simple, max_size=4), "default": st.sampled_from((["drop"], ["answer", 1], ["answer", 1])),
                                      "connect": conn, "gap": st.sampled_from((0, 0, 3, 50))})
        return {"free": True, "family": family, "port": port, "keep": draw(st.booleans()), "T": draw(st.sampled_from((0.5, 1.0))),
                "R": draw(st.integers(0, 2)), "steps": draw(st.lists(step, min_size=2, max_size=8))}

    def body(case):
        if len(acc.samples) < 2:
            acc.sample(case)
        return run_free_history(acc, case)

    harness.hyp_search(acc, body, [cases()], seed=seed, max_examples=n, max_buckets=6)
    return acc


def hist_job(job):
    family, port, keep, first, maxlen, alphabet = job
    acc = Acc()
    for n in range(0, maxlen):
        for rest in itertools.product(alphabet, repeat=n):
            case = {"family": family, "port": port, "keep": keep, "hist": first + "".join(rest)}
            _apply(acc, case, run_history)
    acc.sample({"family": family, "port": port, "keep": keep, "hist": first + "FSFRFFSF"[:maxlen - 1]})
    return acc


# ---------------------------------------------------------------------------------------------
# (C) identification payloads
# ---------------------------------------------------------------------------------------------
def run_ident(acc: Acc, case):
    """case: target in {discover, ES, ET, DT}, ident: bytes, port"""
    import goodwe
    from goodwe.exceptions import InverterError
    acc.case()
    ident = case["ident"]
    target = case["target"]
    if any(b >= 0x80 for b in ident):
        acc.nontrivial("C", target, ident)
    family = "ES" if target in ("discover", "ES") else target
    port = case.get("port", 8899)
    sim = make_sim(family, ident)
    if target == "discover":
        # after the AA55 probe discover() talks Modbus to ET/DT candidates: give the ES model a Modbus side that answers
        sim.modbus.default = lambda a: (a * 3) & 0xFF
    peer = ScriptedPeer(responder(family, port, sim), [], default=("answer", 0.0))
    world = World(peer)
    loop = VLoop(world, max_time=1e5)
    if target == "discover":
        coro = goodwe.discover("192.0.2.1", 8899, 0.5, 0)
    else:
        inv = make_inverter(family, port, 0.5, 0, False)
        coro = inv.read_device_info()
    out = loop.run(coro)
    loop.idle()
    errors = list(loop.errors)
    loop.shutdown()
    if out.hang is not None:
        return [("C09|C|%s|hang" % target, str(out.hang), case)]
    fails = []
    acc.cls("C|%s|%s" % (target, out.kind()))
    if out.exc is not None and not isinstance(out.exc, InverterError):
        fails.append(("C09|C|%s|%s" % (type(out.exc).__name__, _innermost_goodwe_frame(out.exc)),
                      "identification payload %s made %s raise %r" % (ident.hex()[:100], target, out.exc), case))
    if errors:
        fails.append(("C09|C|unhandled-in-callback", repr(errors[0]), case))
    return fails


def extreme_ident_job(job):
    """Identification blocks at the edges of the AA55 frame format: maximal payload lengths filled with 0xFF / 0xFE / 0x00 (byte sums beyond
    16 bits, length byte 0xFF), through discover() and ES.read_device_info() on UDP and on TCP."""
    acc = Acc()
    for n in (255, 254, 253, 250, 200, 86, 1, 0):
        for fill in (0xFF, 0xFE, 0x80, 0x00, 0x7F):
            for target, port in (("ES", 8899), ("discover", 8899), ("ES", 502)):
                case = {"target": target, "ident": bytes((fill,)) * n, "port": port, "extreme": True}
                for key, msg, c in run_ident(acc, case):
                    acc.fail(key, msg, c)
    acc.sample(case)
    return acc


def ident_strategy(target):
    from hypothesis import strategies as st
    import goodwe.model as gm
    tags = [t.encode() for t in (gm.ET_MODEL_TAGS + gm.ES_MODEL_TAGS + gm.DT_MODEL_TAGS)]
    size = {"discover": None, "ES": None, "ET": 66, "DT": 96}[target]
    serial_at = {"discover": 31, "ES": 31, "ET": 6, "DT": 6}[target]
    byte = st.one_of(st.integers(0, 255), st.sampled_from((0, 0x1F, 0x20, 0x41, 0x7F, 0x80, 0xC3, 0xFF)))

    @st.composite
    def idents(draw):
        n = size if size is not None else draw(st.one_of(st.integers(0, 255), st.sampled_from((0, 46, 47, 63, 86, 255))))
        kind = draw(st.sampled_from(("random", "ascii", "ascii+1", "tag")))
        if kind == "random":
            b = bytearray(draw(st.binary(min_size=n, max_size=n)))
        else:
            b = bytearray(draw(st.lists(st.integers(0x20, 0x7E), min_size=n, max_size=n)))
            if kind == "ascii+1" and n:
                b[draw(st.integers(0, n - 1))] = draw(byte)
        if draw(st.integers(0, 3)) == 0:     # one text field shorter than its slot, padded
            lo, hi = draw(st.sampled_from(FIELDS[target]))
            if hi <= n:
                k = draw(st.integers(0, hi - lo))
                b[lo:hi] = bytes(draw(st.lists(st.sampled_from(list(b"0123456789ABZ-")), min_size=k, max_size=k))) + bytes((draw(st.sampled_from((0x20, 0, 0xFF))),)) * (hi - lo - k)
        if kind == "tag" or draw(st.booleans()):
            tag = draw(st.sampled_from(tags))
            pos = serial_at + draw(st.integers(0, 13))
            if pos + 3 <= n:
                b[pos:pos + 3] = tag
                if draw(st.booleans()) and n:
                    b[draw(st.integers(0, n - 1))] = draw(byte)
        return bytes(b)
    return idents()


FIELDS = {"ES": [(0, 5), (5, 15), (31, 47), (51, 63)], "discover": [(0, 5), (5, 15), (31, 47), (51, 63)],
          "ET": [(6, 22), (22, 32), (42, 54), (54, 66)], "DT": [(6, 22), (22, 32), (80, 96)]}


def base_ident(target):
    if target in ("ES", "discover"):
        return bytearray(siminv.es_device_info())
    if target == "ET":
        return bytearray(siminv.et_device_info())
    return bytearray(siminv.dt_device_info() + b"GW10K-DT\x00\x00\x00\x00\x00\x00\x00\x00")


def ident_fields_job(job):
    """Text fields of the identification block shorter than their slot (padded with spaces, NULs or 0xFF), empty, or
    non-numeric where the library parses numbers - on an otherwise well-formed block."""
    target, = job
    acc = Acc()
    texts = (b"0123456789AB", b"9Z8Y7X6W5V4U", b"----------------", b"\xff\xfe\xfd\xfc\xfb\xfa")
    for lo, hi in FIELDS[target]:
        for k in range(0, hi - lo + 1):
            for pad in (0x20, 0x00, 0xFF):
                for t in texts[:2] if k else texts[:1]:
                    b = base_ident(target)
                    if len(b) < hi:
                        continue
                    b[lo:hi] = (t * 2)[:k] + bytes((pad,)) * (hi - lo - k)
                    case = {"target": target, "ident": bytes(b)}
                    for key, msg, c in run_ident(acc, case):
                        acc.fail(key, msg, c)
        for t in texts[2:]:
            b = base_ident(target)
            if len(b) >= hi:
                b[lo:hi] = (t * 3)[:hi - lo]
                for key, msg, c in run_ident(acc, {"target": target, "ident": bytes(b)}):
                    acc.fail(key, msg, c)
    return acc


def ident_job(job):
    seed, n, target = job
    from hypothesis import strategies as st
    acc = Acc()

    def body(ident):
        case = {"target": target, "ident": ident}
        if len(acc.samples) < 2:
            acc.sample(case)
        return run_ident(acc, case)

    harness.hyp_search(acc, body, [ident_strategy(target)], seed=seed, max_examples=n)
    return acc


# ---------------------------------------------------------------------------------------------
def run(ctx):
    jobs = [("ET", 8899, False), ("ET", 8899, True), ("ET", 502, False), ("ET", 502, True),
            ("DT", 8899, True), ("DT", 502, False), ("ES", 8899, False), ("ES", 8899, True)]
    ctx.shard(extreme_ident_job, [0], "C: maximal-length AA55 identification blocks filled with 0xFF/0xFE/0x80/0x00 (byte sum beyond 16 bits) on UDP and TCP")
    ctx.shard(enum_a_job, jobs, "A: every public call x fault/OS-error placed on transmission 0..2, entry points, TCP connect failures")
    n = ctx.pick(2400, 40000)
    ctx.shard(hyp_a_job, [(ctx.seed * 1000 + i, n // 16) for i in range(16)], "A: hypothesis call sequences x fault scripts")
    maxlen = 8
    hjobs = []
    for family, port in (("ET", 8899),) if ctx.quick else (("ET", 8899), ("ET", 502), ("DT", 8899), ("ES", 8899)):
        for keep in (False, True) if not ctx.quick else (True,):
            for first in "SFR":
                for second in "SFR":
                    hjobs.append((family, port, keep, first + second, maxlen - 1, "SFR"))
            for first in "SFRE":   # with transport-error failures as fourth outcome, shorter histories
                for second in "SFRE":
                    hjobs.append((family, port, keep, first + second, ctx.pick(4, 6), "SFRE"))
    ctx.shard(hist_job, hjobs, "B: all histories over {S,F,R} of length 2..8 (lengths 0..1 trivial)")
    ctx.exhaustive_parts.append("B: all 3^2..3^8 histories over {success, failed, rejected} and all histories up to length %d over {success, "
                                "failed by silence, rejected, failed by transport error} per listed (family, port, keep-alive)" % ctx.pick(5, 7))
    ctx.shard(conc_job, [(f, p, k) for (f, p) in (("ET", 8899), ("ET", 502), ("DT", 8899), ("ES", 8899)) for k in (False, True)],
              "B: sequential prefix then 2-4 overlapping requests (all S/F patterns x start offsets), counter in completion order")
    nb = ctx.pick(1600, 30000)
    ctx.shard(hyp_b_job, [(ctx.seed * 1000 + 500 + i, nb // 16) for i in range(16)], "B: hypothesis histories of single requests with free fault scripts (counter follows the observed outcomes)")
    m = ctx.pick(1200, 25000)
    ijobs = []
    for t in ("discover", "ES", "ET", "DT"):
        for i in range(4):
            ijobs.append((ctx.seed * 1000 + i, m // 4, t))
    ctx.shard(ident_fields_job, [(t,) for t in ("discover", "ES", "ET", "DT")], "C: every text field of the identification block x every shorter length x padding byte")
    ctx.shard(ident_job, ijobs, "C: hypothesis identification payloads (random / ascii / one non-ascii byte / model tags)")


def replay(ctx, case):
    if case.get("conc"):
        _apply(ctx.acc, case, run_concurrent_history)
    elif case.get("free"):
        _apply(ctx.acc, case, run_free_history)
    elif "hist" in case:
        _apply(ctx.acc, case, run_history)
    elif "ident" in case:
        _apply(ctx.acc, case, run_ident)
    else:
        _apply(ctx.acc, case, run_api_case)
