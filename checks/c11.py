"""C11 - decoding is total: every sensor is reported, undecodable values become None."""
from __future__ import annotations

from vlib import harness, refsensor as rs, refwire as rw, siminv, tables
from vlib.harness import Acc, run_sync
from checks.c12 import mix
from checks.c13 import BLOCK_FIRST, BLOCK_LEN, map_block

LEVEL = "exploration"
RULE = ("case = register/byte contents of a block (all-zero, all-0xFF, 0x7FFF/0x8000 fills, sentinel mixes, patterned, "
        "Hypothesis-generated; ES AA55 payloads of every announced length 0..255) decoded (a) by Inverter._map_response for every "
        "table of ET/DT/ES, (b) through the public bulk and single-value calls on a simulated inverter, (c) for every eco-mode / "
        "schedule group sensor with EACH 16-bit field swept over all 65,536 values on six base patterns, (d) metamorphic: making "
        "one sensor's registers undecodable must leave every other value unchanged. Non-trivial = block contains a sentinel or "
        "makes at least one value None / ValueError; distinct by (path, block contents).")
ASSUMPTIONS = [
    "accepted outcomes: bulk calls return a dict with every covered id (value or None); single-value calls return a value or "
    "raise ValueError; any other exception type from a decode path is a violation",
    "DT.read_settings_data is not claimed by the property (only the bulk settings reads of ET and ES)",
    "simulated inverters (vlib/siminv.py) answer exact-length blocks",
]


def fill(n, k, seed):
    style = k % 8
    if style == 0:
        return bytes(n)
    if style == 1:
        return b"\xff" * n
    if style == 2:
        return (b"\x7f\xff" * (n // 2 + 1))[:n]
    if style == 3:
        return (b"\x80\x00" * (n // 2 + 1))[:n]
    b = bytearray((mix(seed, k, i) >> 6) & 0xFF for i in range(n))
    if style in (5, 6):
        for j in range(0, n - 1, 2):
            r = mix(seed, k, j, 99) % (7 if style == 5 else 3)
            if r == 0:
                b[j:j + 2] = b"\xff\xff"
            elif r == 1:
                b[j:j + 2] = b"\x7f\xff" if style == 5 else b"\x80\x00"
    if style == 7:
        for j in range(n):
            b[j] = (0x80, 0xC0, 0xFF, 0x7F, 0x3C, 0x18, 0x00, 0x30)[mix(seed, k, j) % 8]
    return bytes(b)


# ---------------------------------------------------------------------------------------------
def map_job(job):
    fam, tname, lo, hi, seed = job
    acc = Acc()
    tab = tables.tables(tables.family_classes()[fam])[tname]
    ids = [s.id_ for s in tab]
    for k in range(lo, hi):
        n = BLOCK_LEN[(fam, tname)]
        if fam == "ES":
            n = (k * 7 + 3) % 256 if k >= 8 else n
        payload = fill(n, k, seed)
        acc.case()
        case = {"path": "map", "family": fam, "table": tname, "payload": payload}
        try:
            d = map_block(fam, tname, payload)
        except Exception as ex:
            acc.fail("C11|exception|%s|%s" % (type(ex).__name__, _where(ex)), "_map_response raised %r" % (ex,), case)
            continue
        if set(d) != set(ids):
            acc.fail("C11|map|%s|missing-keys" % fam, "missing %s" % sorted(set(ids) - set(d))[:5], case)
        if any(v is None for v in d.values()) or b"\xff\xff" in payload:
            acc.nontrivial("map", fam, tname, payload)
        if len(acc.samples) < 1 and k % 8 == 5:
            acc.sample({"family": fam, "table": tname, "payload": payload, "none_values": [i for i in d if d[i] is None][:8]})
    return acc


def _where(ex):
    tb = ex.__traceback__
    where = "?"
    while tb is not None:
        if "/goodwe/" in tb.tb_frame.f_code.co_filename:
            where = "%s:%s" % (tb.tb_frame.f_code.co_filename.rsplit("/", 1)[-1], tb.tb_frame.f_code.co_name)
        tb = tb.tb_next
    return where


def special_job(job):
    """Type-aware special contents: for every sensor of the table its own field is set to each boundary / special pattern of
    its type (IEEE +-inf / NaN for floats, impossible dates, all-ones, sign bit ...) inside otherwise ordinary blocks."""
    from checks.c12 import own_values
    from checks.c13 import pos_of
    fam, tname, seed = job
    acc = Acc()
    tab = tables.tables(tables.family_classes()[fam])[tname]
    ids = {s.id_ for s in tab}
    n = BLOCK_LEN[(fam, tname)]
    for si, s in enumerate(tab):
        w = rs.width(s)
        if not w:
            continue
        pos = pos_of(fam, tname, s)
        if pos < 0 or pos + w > n:
            continue
        for vi, own in enumerate(own_values(s, 4, seed + si)):
            for base in (0, 4):
                payload = bytearray(fill(n, base, seed + si))
                payload[pos:pos + w] = own
                acc.case()
                acc.nontrivial("special", fam, tname, si, own, base)
                case = {"path": "map", "family": fam, "table": tname, "payload": bytes(payload)}
                try:
                    d = map_block(fam, tname, bytes(payload))
                except Exception as ex:
                    acc.fail("C11|exception|%s|%s" % (type(ex).__name__, _where(ex)),
                             "_map_response raised %r with %s=%s" % (ex, s.id_, own.hex()), case)
                    continue
                if set(d) != ids:
                    acc.fail("C11|map|%s|missing-keys" % fam, "missing %s" % sorted(ids - set(d))[:5], case)
    return acc


# ---------------------------------------------------------------------------------------------
def group_sensors():
    return [(f, t, i, s) for (f, t, i, s) in tables.all_sensors() if rs.type_name(s) in rs.GROUPS]


GROUP_BASES = {
    8: ["0000173b0014ff7f", "3000300000640000", "0000000000000000", "ffffffffffffffff", "173b173b0064ff80", "0d1e0e0fffecff55"],
    12: ["0000173bff7f001400640000", "300030000000006400640000", "000000000000000000000000", "ffffffffffffffffffffffff",
         "0000173bf97f03e800640fff", "0d1e0e0ffc55ffec00320001"],
}


def group_job(job):
    gi, field, lo, hi = job
    acc = Acc()
    from goodwe.protocol import ProtocolResponse
    fam, tname, i, s = group_sensors()[gi]
    w = s.size_
    for base_hex in GROUP_BASES[w]:
        base = bytearray.fromhex(base_hex)
        for v in range(lo, hi):
            base[2 * field:2 * field + 2] = v.to_bytes(2, "big")
            acc.case()
            raw = bytes(base)
            try:
                val = s.read_value(ProtocolResponse(raw, None))
                str(val)
                outcome = "value"
            except ValueError:
                outcome = "ValueError"
                acc.nontrivial_counted()
            except Exception as ex:
                acc.fail("C11|exception|%s|%s" % (type(ex).__name__, _where(ex)),
                         "%s.%s.read_value raised %r for registers %s" % (fam, s.id_, ex, raw.hex()),
                         {"path": "group", "family": fam, "table": tname, "index": i, "raw": raw})
                continue
            acc.cls("group|" + outcome)
    return acc


# ---------------------------------------------------------------------------------------------
# public API on a simulator (direct path)
# ---------------------------------------------------------------------------------------------
def make_target(fam, image_k, seed, serial=None, es_len=None):
    import goodwe
    if fam == "ET":
        inv = goodwe.ET("192.0.2.1", 502 if (image_k + seed) % 4 == 3 else 8899)    # every fourth target over Modbus/TCP
        regs = {}
        default = _image(image_k, seed)
        sim = siminv.make_et_sim(serial=serial or b"9010KETU000W0000", rated_power=(10000, 29900)[image_k % 2], default=default)
        if image_k % 3 == 0:
            sim.set(35184, 1)  # battery present so that the battery block is read
    elif fam == "DT":
        inv = goodwe.DT("192.0.2.1", 502 if (image_k + seed) % 4 == 3 else 8899)
        dts = siminv.dt_serials()      # three-phase and single-phase tags: the model filters differ
        sim = siminv.make_dt_sim(serial=serial or dts[(image_k // 8 + seed) % len(dts)], default=_image(image_k, seed))
    else:
        inv = goodwe.ES("192.0.2.1", 8899)
        n1 = es_len if es_len is not None else 142
        sim = siminv.Aa55Sim(runtime=fill(n1, image_k, seed), settings=fill(min(255, (n1 * 3 + 5) % 256) if es_len is not None else 86, image_k + 1, seed),
                             modbus=siminv.ModbusSim(default=_image(image_k, seed)))
        sim.regs = _RegImage(_image(image_k, seed))
        if image_k % 2:
            sim.device_info = siminv.es_device_info(firmware=b"2214E", serial=b"95048ESU000W0000")
    siminv.attach_direct(inv, siminv.responder_for(inv, sim))
    return inv, sim


class _RegImage(dict):
    def __init__(self, fn):
        super().__init__()
        self.fn = fn

    def get(self, a, default=0):
        return dict.get(self, a, self.fn(a))


def _image(k, seed):
    style = k % 8
    if style == 0:
        return lambda a: 0
    if style == 1:
        return lambda a: 0xFFFF
    if style == 2:
        return lambda a: 0x7FFF
    if style == 3:
        return lambda a: 0x8000
    if style == 4:
        return lambda a: mix(seed, k, a) & 0xFFFF
    if style == 5:
        return lambda a: (0xFFFF, 0x7FFF, 0x8000, 0, 1, 0x00FF, 0xFF00)[mix(seed, k, a) % 7]
    if style == 6:
        return lambda a: mix(seed, k, a) & 0x00FF
    return lambda a: (0x80C0, 0xFF80, 0x3C18, 0x1000, 0x7F00, 0x00FF)[mix(seed, k, a) % 6]


def api_job(job):
    fam, lo, hi, seed = job[:4]
    acc = Acc()
    items = job[4] if len(job) > 4 else [(k, None if (fam != "ES" or k < 8) else (k * 11) % 256) for k in range(lo, hi)]
    # every second target is ALSO used the way an application that builds the object itself may use it: no read_device_info() first
    items = [(k, e, ni) for (k, e) in items for ni in ((False, True) if k % 2 == 0 else (False,))]
    for k, es_len, no_info in items:
        inv, sim = make_target(fam, k, seed, es_len=es_len)
        case = {"path": "api", "family": fam, "image": k, "seed": seed, "es_len": es_len, "no_info": no_info}

        def call(name, coro, single=False):
            acc.case()
            try:
                res = run_sync(coro)
                return res
            except ValueError as ex:
                if single and not isinstance(ex, UnicodeError):
                    acc.cls("api|single|ValueError")
                    acc.nontrivial("api", fam, k, name)
                    return None
                acc.fail("C11|api|%s|%s|ValueError|%s" % (fam, name.split(":")[0], _where(ex)), "%s raised %r" % (name, ex), dict(case, call=name))
            except Exception as ex:
                from goodwe.exceptions import InverterError
                if isinstance(ex, InverterError):
                    acc.cls("api|InverterError")
                    return None
                acc.fail("C11|exception|%s|%s" % (type(ex).__name__, _where(ex)), "%s raised %r" % (name, ex), dict(case, call=name))
            return None

        acc.cls("api|%s|%s" % (fam, type(inv._protocol).__name__))
        if not no_info:
            call("read_device_info", inv.read_device_info())
        else:
            acc.cls("api|%s|no-device-info" % fam)
        d = call("read_runtime_data", inv.read_runtime_data())
        if d is not None:
            want = {s.id_ for s in inv.sensors()}
            if set(d) != want:
                acc.fail("C11|api|%s|runtime-keys" % fam, "keys differ from sensors(): missing %s extra %s" % (
                    sorted(want - set(d))[:4], sorted(set(d) - want)[:4]), dict(case, call="read_runtime_data"))
            if any(v is None for v in d.values()):
                acc.nontrivial("api", fam, k, "runtime-none")
        if fam in ("ET", "ES"):
            sd = call("read_settings_data", inv.read_settings_data())
            if sd is not None:
                want = {s.id_ for s in inv.settings()}
                if not want <= set(sd):
                    acc.fail("C11|api|%s|settings-keys" % fam, "missing %s" % sorted(want - set(sd))[:4], dict(case, call="read_settings_data"))
        if fam == "ET":
            # settings whose registers this firmware does not have (ILLEGAL DATA ADDRESS) or cannot be read at the moment
            # (any other exception code) are still reported - as None - and the others are still decoded
            inv2, sim2 = make_target(fam, k, seed)
            offs = sorted({s.offset for s in inv2.settings()})
            picked = [a for a in offs if mix(seed, k, a) % 5 == 0] or offs[k % len(offs):][:1]
            sim2.refused.extend((a, a) for a in picked)
            sim2.refuse_code = (2, 2, 4, 6)[k % 4]
            before = {s.id_ for s in inv2.settings()}
            refused_ids = {s.id_ for s in inv2.settings() if any(s.offset <= a < s.offset + max(1, (s.size_ + 1) // 2) for a in picked)}
            sd2 = call("read_settings_data:refused", inv2.read_settings_data())
            if sd2 is not None:
                acc.nontrivial("api", fam, k, "settings-refused", tuple(picked))
                if not before <= set(sd2):
                    acc.fail("C11|api|%s|settings-keys|refused" % fam, "missing %s after %s were refused" % (sorted(before - set(sd2))[:4], sorted(refused_ids)[:4]),
                             dict(case, call="read_settings_data", refused=picked))
                # the same bulk read while another call on the object (a single read of a refused setting, a second bulk read) overlaps it
                for oname, offset in (("single", 0), ("single", k % 5 + 1), ("bulk", 1 + k % 7), ("bulk", 0)):
                    inv3, sim3 = make_target(fam, k, seed)
                    sim3.refused.extend((a, a) for a in picked)
                    sim3.refuse_code = 2
                    before3 = {s.id_ for s in inv3.settings()}
                    rid = sorted(refused_ids)[0] if refused_ids else sorted(before3)[0]
                    other = (lambda: inv3.read_setting(rid)) if oname == "single" else (lambda: inv3.read_settings_data())
                    acc.case()
                    res3, exc3 = siminv.run_overlapping(inv3, lambda: inv3.read_settings_data(), [(other, offset)])
                    acc.nontrivial("api", fam, k, "settings-refused-overlap", oname, offset)
                    ocase = dict(case, call="read_settings_data", refused=picked, overlap=[oname, offset])
                    if exc3 is not None:
                        from goodwe.exceptions import InverterError
                        if not isinstance(exc3, InverterError):
                            acc.fail("C11|exception|%s|%s" % (type(exc3).__name__, _where(exc3)), "read_settings_data() overlapping with %s raised %r" % (
                                "read_setting(%r)" % rid if oname == "single" else "a second read_settings_data()", exc3), ocase)
                    elif not before3 <= set(res3):
                        acc.fail("C11|api|%s|settings-keys|refused" % fam, "missing %s when %s overlapped the bulk read" % (sorted(before3 - set(res3))[:4], oname), ocase)
                # (no value comparison with the first object's result: the sensor definitions are shared between objects
                #  and carry decoding state - that is C20's subject and known finding, not this property's)
        ids = [s.id_ for s in inv.settings()]
        for sid in ids[(k % 3)::3]:
            call("read_setting:" + sid, inv.read_setting(sid), single=True)
        sens = [s.id_ for s in inv.sensors() if rs.type_name(s) not in rs.COMPUTED]
        for sid in sens[(k % 7)::7]:
            call("read_sensor:" + sid, inv.read_sensor(sid), single=True)
        if len(acc.samples) < 1:
            acc.sample(dict(case, runtime_none=[i for i in (d or {}) if (d or {})[i] is None][:6]))
    return acc


# ---------------------------------------------------------------------------------------------
def metamorphic_job(job):
    fam, tname, lo, hi, seed = job
    acc = Acc()
    tab = tables.tables(tables.family_classes()[fam])[tname]
    victims = [s for s in tab if rs.type_name(s) == "Timestamp"]
    if not victims:
        return acc
    for k in range(lo, hi):
        payload = bytearray(fill(BLOCK_LEN[(fam, tname)], 4 + (k % 3), seed + k))
        s = victims[k % len(victims)]
        pos = s.offset if fam == "ES" else (s.offset - BLOCK_FIRST[(fam, tname)]) * 2
        good = bytes((24, 1 + k % 12, 1 + k % 28, k % 24, k % 60, (k * 7) % 60))
        payload[pos:pos + 6] = good
        acc.case()
        try:
            d1 = map_block(fam, tname, bytes(payload))
            payload[pos:pos + 6] = bytes((24, 13 + k % 200, 0, 25, 61, 61))
            d2 = map_block(fam, tname, bytes(payload))
        except Exception as ex:
            acc.fail("C11|meta|%s|%s" % (fam, type(ex).__name__), repr(ex), {"path": "meta", "family": fam, "table": tname, "k": k, "seed": seed})
            continue
        acc.nontrivial("meta", fam, tname, bytes(payload))
        if d2.get(s.id_) is not None:
            acc.fail("C11|meta|%s|undecodable-not-none" % fam, "%s=%r for an impossible date" % (s.id_, d2.get(s.id_)),
                     {"path": "meta", "family": fam, "table": tname, "k": k, "seed": seed})
        involved = {s.id_}
        diff = [i for i in d1 if i not in involved and not rs.same(d1[i], d2[i]) and repr(d1[i]) != repr(d2[i])]
        if diff:
            acc.fail("C11|meta|%s|other-values-changed" % fam, "making %s undecodable changed %s" % (s.id_, diff[:4]),
                     {"path": "meta", "family": fam, "table": tname, "k": k, "seed": seed})
    return acc


def hyp_job(job):
    seed, n = job
    from hypothesis import strategies as st
    acc = Acc()
    keys = sorted(BLOCK_LEN)

    @st.composite
    def cases(draw):
        fam, tname = draw(st.sampled_from(keys))
        n_ = BLOCK_LEN[(fam, tname)] if fam != "ES" else draw(st.integers(0, 255))
        word = st.one_of(st.sampled_from((0, 0xFFFF, 0x7FFF, 0x8000, 0x80C0, 0x1000, 0x7F7F, 0x3030, 0x173B, 0xFF7F, 0x0D1F)), st.integers(0, 0xFFFF))
        words = draw(st.lists(word, min_size=(n_ + 1) // 2, max_size=(n_ + 1) // 2))
        return fam, tname, b"".join(w.to_bytes(2, "big") for w in words)[:n_]

    def body(t):
        fam, tname, payload = t
        acc.case()
        acc.nontrivial("hyp", fam, tname, payload)
        case = {"path": "map", "family": fam, "table": tname, "payload": payload}
        try:
            d = map_block(fam, tname, payload)
        except Exception as ex:
            return [("C11|exception|%s|%s" % (type(ex).__name__, _where(ex)), "_map_response raised %r" % (ex,), case)]
        ids = {s.id_ for s in tables.tables(tables.family_classes()[fam])[tname]}
        if set(d) != ids:
            return [("C11|map|%s|missing-keys" % fam, "missing %s" % sorted(ids - set(d))[:5], case)]
        return []

    harness.hyp_search(acc, body, [cases()], seed=seed, max_examples=n)
    return acc


def hyp_group_job(job):
    seed, n = job
    from hypothesis import strategies as st
    from goodwe.protocol import ProtocolResponse
    acc = Acc()
    groups = group_sensors()

    @st.composite
    def cases(draw):
        gi = draw(st.integers(0, len(groups) - 1))
        w = groups[gi][3].size_
        return gi, draw(st.binary(min_size=w, max_size=w))

    def body(t):
        gi, raw = t
        fam, tname, i, s = groups[gi]
        acc.case()
        acc.nontrivial("hypgroup", gi, raw)
        try:
            str(s.read_value(ProtocolResponse(raw, None)))
        except ValueError:
            pass
        except Exception as ex:
            return [("C11|exception|%s|%s" % (type(ex).__name__, _where(ex)),
                     "%s.%s.read_value raised %r for registers %s" % (fam, s.id_, ex, raw.hex()),
                     {"path": "group", "family": fam, "table": tname, "index": i, "raw": raw})]
        return []

    harness.hyp_search(acc, body, [cases()], seed=seed, max_examples=n)
    return acc


def run(ctx):
    nb = ctx.pick(400, 6000)
    jobs = []
    for (fam, tname) in BLOCK_LEN:
        jobs.append((fam, tname, 0, nb, ctx.seed))
    for fam, tname in (("ET", "all_settings"), ("ET", "settings_arm_fw_19"), ("ET", "settings_arm_fw_22"), ("DT", "all_settings"), ("ES", "settings_arm_fw_14")):
        pass  # register-addressed settings are read one by one: covered by api_job / group_job
    ctx.shard(map_job, jobs, "_map_response over every table x block classes (ES: every payload length)")
    ctx.shard(special_job, [(fam, tname, ctx.seed) for (fam, tname) in BLOCK_LEN],
              "type-aware special values of every sensor's own field (IEEE inf/NaN, impossible dates, all-ones, sign bit) inside ordinary blocks")
    groups = group_sensors()
    gjobs = []
    reps = {}
    for gi, (fam, tname, i, s) in enumerate(groups):
        key = (rs.type_name(s),) if ctx.quick else (gi,)
        if key in reps:
            continue
        reps[key] = gi
        for field in range(s.size_ // 2):
            for lo in range(0, 65536, 32768):
                gjobs.append((gi, field, lo, lo + 32768))
    ctx.shard(group_job, gjobs, "eco-mode / schedule groups: every 16-bit field x 65,536 values x 6 base patterns")
    ctx.exhaustive_parts.append("each 16-bit field of %s group sensor type/instance swept over all 65,536 values on 6 base patterns" % (
        "every" if not ctx.quick else "one instance of every"))
    na = ctx.pick(48, 600)
    ajobs = []
    # ES: announced length and content class decoupled (boundary lengths x all 8 content classes, e.g. 255 bytes of 0xFF whose
    # byte sum exceeds 16 bits)
    es_lens = (0, 1, 2, 85, 86, 141, 142, 143, 200, 253, 254, 255)
    for ln in es_lens:
        ajobs.append(("ES", 0, 0, ctx.seed, [(8 * (1 + ln % 3) + style, ln) for style in range(8)]))
    for fam in ("ET", "DT", "ES"):
        step = max(1, na // 5)
        for lo in range(0, na, step):
            ajobs.append((fam, lo, min(na, lo + step), ctx.seed))
    ctx.shard(api_job, ajobs, "public bulk + single-value calls on simulated inverters with generated register images")
    mj = [(fam, tname, 0, ctx.pick(60, 1000), ctx.seed) for (fam, tname) in BLOCK_LEN]
    ctx.shard(metamorphic_job, mj, "metamorphic: one undecodable sensor leaves the others unchanged")
    n = ctx.pick(4000, 80000)
    ctx.shard(hyp_job, [(ctx.seed * 1000 + i, n // 8) for i in range(8)], "hypothesis blocks")
    ctx.shard(hyp_group_job, [(ctx.seed * 1000 + 50 + i, n // 8) for i in range(8)], "hypothesis group register contents")


def replay(ctx, case):
    acc = ctx.acc
    if case["path"] == "map":
        acc.case()
        try:
            map_block(case["family"], case["table"], case["payload"])
        except Exception as ex:
            acc.fail("C11|exception|%s|%s" % (type(ex).__name__, _where(ex)), repr(ex), case)
    elif case["path"] == "group":
        from goodwe.protocol import ProtocolResponse
        s = tables.find(case["family"], case["table"], case["index"])
        acc.case()
        try:
            str(s.read_value(ProtocolResponse(case["raw"], None)))
        except ValueError:
            pass
        except Exception as ex:
            acc.fail("C11|exception|%s|%s" % (type(ex).__name__, _where(ex)), repr(ex), case)
    elif case["path"] == "api":
        acc.merge(api_job((case["family"], case["image"], case["image"] + 1, case["seed"])))
    else:
        acc.merge(metamorphic_job((case["family"], case["table"], case["k"], case["k"] + 1, case["seed"])))
