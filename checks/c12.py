"""C12 - each sensor value is the documented reading of exactly its own registers."""
from __future__ import annotations

from vlib import harness, refsensor as rs, refwire as rw, tables
from vlib.harness import Acc

LEVEL = "exploration"
RULE = ("case = (sensor object of any table of ET/DT/ES, contents of its own field, surrounding block contents, first address of "
        "the read window, transport framing). Own fields of 1/2-byte sensors are swept over all 65,536 register values "
        "(quick: one instance per sensor type exhaustively + 256 boundary/patterned values for every instance; thorough: every "
        "instance exhaustively); wide fields get boundary + patterned + Hypothesis values. Each case checks value == reference "
        "decoder of the type applied to the bytes at (offset - first) x 2 (AA55: plain offset) AND that re-randomising every byte "
        "outside the own field leaves the value unchanged. Non-trivial = own field has the sign bit set, is a sentinel, or exceeds "
        "32767; distinct by (sensor, field value, window).")
ASSUMPTIONS = [
    "vlib/refsensor.py is the per-type reference (docstrings + scales named by C12 + sentinels pinned by tests/test_sensor.py); "
    "where a docstring does not say signed/unsigned (Frequency, Apparent, Reactive, Temp) the baseline behaviour is frozen",
    "the sensor tables are the register documentation: a sensor's address is taken from sensor.offset (DESIGN.md D4)",
    "float results compared with rel/abs tolerance 1e-12",
    "ES settings addressed by register (offset > 255: eco-mode groups and switches) are read at position 0 of their own answer",
]

B16 = (0, 1, 2, 9, 10, 99, 100, 101, 0x7F, 0x80, 0xFF, 0x100, 0x101, 0x3E8, 0x7FFE, 0x7FFF, 0x8000, 0x8001, 0xFF00, 0xFFFE, 0xFFFF)


def mix(*parts):
    """Deterministic 32-bit mixing (pure function of its arguments; no RNG state)."""
    h = 0x9E3779B9
    for p in parts:
        h = (h ^ (p & 0xFFFFFFFF)) * 0x85EBCA6B & 0xFFFFFFFF
        h ^= h >> 13
    return h


def surround(n, salt, style):
    if style == 0:
        return bytearray(n)
    if style == 1:
        return bytearray(b"\xff" * n)
    return bytearray((mix(salt, i) >> 8) & 0xFF for i in range(n))


def build_response(fam, sensor, tname, own: bytes, first_delta: int, salt: int, style: int, tcp: bool):
    """ProtocolResponse whose block contains `own` at the sensor's position; returns (response, start index of own, payload)."""
    from goodwe.protocol import (Aa55ProtocolCommand, ModbusRtuReadCommand, ModbusTcpReadCommand, ProtocolResponse)
    w = len(own)
    if fam == "ES" and sensor.offset <= 255:
        total = max(sensor.offset + w + 3, 90)
        total = min(255, total)
        payload = surround(total, salt, style)
        pos = sensor.offset
        payload[pos:pos + w] = own
        cmd = Aa55ProtocolCommand("010600" if not tables.is_settings_table(tname) else "010900",
                                  "0186" if not tables.is_settings_table(tname) else "0189")
        frame = rw.aa55_response(bytes.fromhex("0186" if not tables.is_settings_table(tname) else "0189"), bytes(payload))
        return ProtocolResponse(frame, cmd), pos, bytes(payload)
    regs_needed = (w + 1) // 2
    first = max(0, sensor.offset - first_delta)
    count = min(125, (sensor.offset - first) + regs_needed + (salt % 3))
    count = max(count, (sensor.offset - first) + regs_needed)
    payload = surround(2 * count, salt, style)
    pos = (sensor.offset - first) * 2
    payload[pos:pos + w] = own
    if tcp:
        cmd = ModbusTcpReadCommand(0xF7, first, count)
        frame = rw.tcp_read_response(1, 0xF7, bytes(payload))
        # GoodWe firmware is known to send inconsistent MBAP length fields; the library documents that it ignores them
        # ("length check ignored due to Goodwe bugs"), so the decoded block must not depend on that field either
        variant = salt % 6
        if variant:
            ln = (len(payload), 0, 6, 0xFFFF, len(payload) + 300)[variant - 1]
            frame = frame[:4] + (ln & 0xFFFF).to_bytes(2, "big") + frame[6:]
    else:
        cmd = ModbusRtuReadCommand(0xF7, first, count)
        frame = rw.rtu_read_response_unsealed(0xF7, bytes(payload))
    return ProtocolResponse(frame, cmd), pos, bytes(payload)


def lib_read(fam, sensor, resp):
    """How the library reads a sensor out of a block: Sensor.read (seek + read_value); register-addressed ES settings are
    read with read_value at position 0 (ES._read_setting)."""
    if fam == "ES" and sensor.offset > 255:
        return sensor.read_value(resp)
    return sensor.read(resp)


def check_one(acc: Acc, fam, tname, index, sensor, own: bytes, first_delta=0, salt=0, style=2, tcp=False, counted=False,
              interference=True):
    acc.case()
    tn = rs.type_name(sensor)
    case = {"family": fam, "table": tname, "index": index, "id": sensor.id_, "type": tn, "own": own,
            "first_delta": first_delta, "salt": salt, "style": style, "tcp": tcp}
    v = rs._u(own)
    bits = 8 * len(own)
    nt = bool(v >> (bits - 1)) or v == (1 << bits) - 1 or v == (1 << (bits - 1)) - 1 or v > 32767
    if nt:
        if counted:
            acc.nontrivial_counted()
        else:
            acc.nontrivial(fam, tname, index, own, first_delta, tcp)
    if fam == "ES" and sensor.offset > 255:
        first_delta = 0  # register-addressed ES settings are read from their own answer at position 0
    elif sensor.offset - first_delta < 0:
        first_delta = sensor.offset
    try:
        want = rs.decode(sensor, own)
        undec = False
    except rs.Undecodable:
        want, undec = None, True
    resp, pos, payload = build_response(fam, sensor, tname, own, first_delta, salt, style, tcp)
    try:
        got = lib_read(fam, sensor, resp)
        raised = None
    except ValueError as ex:
        got, raised = None, ex
    except Exception as ex:
        return acc.fail("C12|%s|exception|%s" % (tn, type(ex).__name__), "%s.%s raised %r for own bytes %s" % (fam, sensor.id_, ex, own.hex()), case)
    if undec:
        if raised is None:
            return acc.fail("C12|%s|undecodable-not-reported" % tn, "%s.%s returned %r for undecodable bytes %s" % (fam, sensor.id_, got, own.hex()), case)
        return False
    if raised is not None:
        return acc.fail("C12|%s|valueerror-on-decodable" % tn, "%s.%s raised %r for bytes %s (reference: %r)" % (fam, sensor.id_, raised, own.hex(), want), case)
    if not rs.same(got, want):
        return acc.fail("C12|%s|wrong-value" % tn,
                        "%s.%s (%s @%d, window first=%d) read %r from bytes %s, documented interpretation gives %r" % (
                            fam, sensor.id_, tn, sensor.offset, sensor.offset - first_delta, got, own.hex(), want), case)
    if interference:
        resp2, pos2, payload2 = build_response(fam, sensor, tname, own, first_delta, salt + 0x5151, (style + 1) % 3, tcp)
        try:
            got2 = lib_read(fam, sensor, resp2)
        except Exception as ex:
            return acc.fail("C12|%s|interference" % tn, "%s.%s raised %r after changing only foreign bytes" % (fam, sensor.id_, ex), case)
        if not rs.same(got, got2):
            return acc.fail("C12|%s|interference" % tn,
                            "%s.%s changed from %r to %r although only bytes outside its own field changed" % (fam, sensor.id_, got, got2), case)
    return False


def check_beyond(acc: Acc, fam, tname, index, sensor, gap, salt, tcp):
    """The block that was read ENDS before the sensor's own registers (gap registers earlier): whatever the library reports then,
    it cannot depend on the registers that WERE read - they are all 'other registers of the response'."""
    from goodwe.protocol import ModbusRtuReadCommand, ModbusTcpReadCommand, ProtocolResponse
    if fam == "ES" and sensor.offset <= 255:
        return False
    acc.case()
    acc.nontrivial("beyond", fam, tname, index, gap, salt, tcp)
    before = 3 + salt % 5
    first = max(0, sensor.offset - gap - before)
    count = sensor.offset - gap - first
    if count < 1:
        return False
    outcomes = []
    for style, s2 in ((1, 0), (2, salt), (2, salt + 0x7777), (0, 0)):
        payload = bytes(surround(2 * count, s2, style))
        if tcp:
            cmd = ModbusTcpReadCommand(0xF7, first, count)
            frame = rw.tcp_read_response(1, 0xF7, payload)
        else:
            cmd = ModbusRtuReadCommand(0xF7, first, count)
            frame = rw.rtu_read_response_unsealed(0xF7, payload)
        try:
            outcomes.append(("value", repr(sensor.read(ProtocolResponse(frame, cmd)))))
        except Exception as ex:
            outcomes.append(("raised", type(ex).__name__))
    if len(set(outcomes)) > 1:
        tn = rs.type_name(sensor)
        return acc.fail("C12|%s|interference|beyond-block-end" % tn,
                        "%s.%s (@%d) read from a block %d+%d that ends %d register(s) before it gives %s depending on the block's content" % (
                            fam, sensor.id_, sensor.offset, first, count, gap, sorted(set(outcomes))[:3]),
                        {"beyond": True, "family": fam, "table": tname, "index": index, "gap": gap, "salt": salt, "tcp": tcp})
    return False


def typed_sensors():
    return [(f, t, i, s) for (f, t, i, s) in tables.all_sensors() if rs.type_name(s) in rs.TYPES]


def own_values(sensor, n_extra, salt):
    """Boundary + patterned own-field contents for a sensor (bytes)."""
    w = rs.width(sensor)
    vals = []
    if w <= 2:
        for v in B16:
            vals.append(v & ((1 << (8 * w)) - 1))
        for k in range(n_extra):
            vals.append(mix(salt, k) & ((1 << (8 * w)) - 1))
        return [v.to_bytes(w, "big") for v in dict.fromkeys(vals)]
    out = [bytes(w), b"\xff" * w, b"\x7f" + b"\xff" * (w - 1), b"\x80" + bytes(w - 1), b"\xff" * (w - 1) + b"\xfe",
           b"\x80" + bytes(w - 2) + b"\x01", b"\xc0" + bytes(w - 1), b"\x80\x01" + bytes(w - 2),
           bytes(w - 1) + b"\x01", b"\x00" * (w - 2) + b"\xff\xff", b"\x00\x00" + b"\xff" * (w - 2)]
    if rs.type_name(sensor) == "Timestamp":
        out += [bytes((24, 2, 29, 23, 59, 59)), bytes((23, 2, 29, 0, 0, 0)), bytes((0, 1, 1, 0, 0, 0)), bytes((255, 12, 31, 23, 59, 59)),
                bytes((24, 13, 1, 0, 0, 0)), bytes((24, 0, 1, 0, 0, 0)), bytes((24, 1, 32, 0, 0, 0)), bytes((24, 1, 1, 24, 0, 0)),
                bytes((24, 1, 1, 0, 60, 0)), bytes((24, 1, 1, 0, 0, 60)), bytes((24, 4, 31, 0, 0, 0)), bytes((99, 12, 31, 23, 59, 59))]
    if rs.type_name(sensor) == "Float":
        out += [b"\x7f\x80\x00\x00", b"\xff\x80\x00\x00", b"\x7f\xc0\x00\x00", b"\x00\x00\x00\x01", b"\x3f\x80\x00\x00", b"\xc7\xc3\x50\x00",
                b"\x80\x00\x00\x00", b"\x7f\x7f\xff\xff"]
    for k in range(n_extra):
        out.append(bytes((mix(salt, k, j) >> 5) & 0xFF for j in range(w)))
    return list(dict.fromkeys(out))


def instance_job(job):
    lo, hi, n_extra, seed = job
    acc = Acc()
    sensors = typed_sensors()
    for idx in range(lo, min(hi, len(sensors))):
        fam, tname, i, s = sensors[idx]
        for own in own_values(s, n_extra, seed * 7919 + idx):
            for j, (fd, style, tcp) in enumerate(((0, 2, False), (1, 0, True), (5, 1, False))):
                if fam == "ES" and s.offset <= 255 and j:
                    fd, tcp = 0, False
                check_one(acc, fam, tname, i, s, own, fd, seed + idx, style, tcp)
        for gap in (0, 1, 2):
            check_beyond(acc, fam, tname, i, s, gap, seed + idx, bool(gap & 1))
        if len(acc.samples) < 2:
            acc.sample({"sensor": "%s.%s" % (fam, s.id_), "type": rs.type_name(s), "offset": s.offset,
                        "own_values": len(own_values(s, n_extra, seed * 7919 + idx)), "windows": 3})
    return acc


def sweep_job(job):
    idx, lo, hi = job
    acc = Acc()
    fam, tname, i, s = typed_sensors()[idx]
    w = rs.width(s)
    for v in range(lo, hi):
        own = v.to_bytes(2, "big") if w == 2 else bytes((v >> 8, v & 0xFF))[:w] if w == 1 else None
        if w == 1:
            own = bytes((v & 0xFF,))
        check_one(acc, fam, tname, i, s, own, 0, v, 2, bool(v & 1), counted=True, interference=(v % 16 == 0))
    return acc


def hyp_job(job):
    seed, n = job
    from hypothesis import strategies as st
    acc = Acc()
    sensors = typed_sensors()
    wide = [k for k, (f, t, i, s) in enumerate(sensors) if rs.width(s) > 2]

    @st.composite
    def cases(draw):
        k = draw(st.sampled_from(wide)) if draw(st.booleans()) else draw(st.integers(0, len(sensors) - 1))
        fam, tname, i, s = sensors[k]
        w = rs.width(s)
        own = draw(st.one_of(st.binary(min_size=w, max_size=w), st.sampled_from(own_values(s, 0, 0))))
        return k, own, draw(st.integers(0, 40)), draw(st.integers(0, 2 ** 20)), draw(st.integers(0, 2)), draw(st.booleans())

    def body(t):
        k, own, fd, salt, style, tcp = t
        fam, tname, i, s = sensors[k]
        sub = Acc()
        check_one(sub, fam, tname, i, s, own, fd, salt, style, tcp)
        acc.evals += sub.evals
        acc.nt |= sub.nt
        acc.cls("hyp|" + rs.type_name(s))
        if len(acc.samples) < 3:
            acc.sample({"sensor": "%s.%s" % (fam, s.id_), "own": own, "first_delta": fd, "tcp": tcp})
        return [(key, v["msg"], v["case"]) for key, v in sub.viol.items()] + [(key, sub.known_msg[key], {"k": k}) for key in sub.known]

    harness.hyp_search(acc, body, [cases()], seed=seed, max_examples=n)
    return acc


# ---------------------------------------------------------------------------------------------
# through the API, over histories: a setting / sensor id is always fetched from ITS OWN registers (those of the definition
# the inverter object currently lists under that id), whatever was read from the object before
# ---------------------------------------------------------------------------------------------
class _Recorder:
    def __init__(self, inner, tcp):
        self.inner, self.tcp, self.reqs, self.fail_next, self.fail_at = inner, tcp, [], 0, None

    def respond(self, data):
        self.reqs.append(bytes(data[2:]) if self.tcp else bytes(data))
        if self.fail_next:
            self.fail_next -= 1
            return None
        if self.fail_at is not None:
            self.fail_at -= 1
            if self.fail_at < 0:
                self.fail_at = None
                return None
        return self.inner.respond(data)

    def __getattr__(self, name):
        return getattr(self.inner, name)


def _hist_configs():
    out = []
    for serial, power in ((b"9010KETU000W0000", 10000), (b"925KETT000W00001", 25000), (b"95000EHU000W0001", 5000)):
        for arm in (10, 18, 19, 24):
            out.append({"family": "ET", "serial": serial, "rated_power": power, "refuse": [], "battery_mode": 1, "tcp": bool(arm & 2), "arm": arm})
    out.append({"family": "ET", "serial": b"9010KETU000W0000", "rated_power": 10000, "refuse": ["eco_v2", "peak_shaving"], "battery_mode": 1, "tcp": False, "arm": 24})
    out.append({"family": "ET", "serial": b"925KETT000W00001", "rated_power": 25000, "refuse": ["meter_ext2"], "battery_mode": 1, "tcp": True, "arm": 24})
    out.append({"family": "ET", "serial": b"9010KETU000W0000", "rated_power": 15000, "refuse": ["meter_ext", "battery2"], "battery_mode": 1, "tcp": False, "arm": 18})
    out.append({"family": "ET", "serial": b"929K9ETT00W00001", "rated_power": 29900, "refuse": ["mppt"], "battery_mode": 0, "tcp": False, "arm": 19})
    for serial in (b"9010KDTU000W0000", b"9010KMSU000W0000"):
        out.append({"family": "DT", "serial": serial, "refuse": [], "tcp": serial[5:7] == b"MS"})
    for serial in (b"95048ESU000W0000", b"95048EMU000W0000", b"95048XYZ000W0000"):
        for fw in (b"02041", b"2214E", b"1107E"):
            out.append({"family": "ES", "serial": serial, "firmware": fw})
    return out


HISTORIES = ("fresh", "preread", "failed-info-then-preread", "info-twice", "reverse-twice", "runtime-first") + tuple("failed-poll:%d" % k for k in range(7))


def _run_history(cfg, hist, salt):
    from goodwe.exceptions import InverterError
    from vlib import siminv
    from vlib.harness import run_sync
    c = {k: v for k, v in cfg.items() if k != "arm"}
    inv, sim = siminv.build_direct(c, default=lambda a: (a * 40503 + salt * 977 + 11) & 0xFFFF)
    if cfg["family"] == "ET":
        sim.set_bytes(0x88b8, siminv.et_device_info(serial=cfg["serial"], rated_power=cfg["rated_power"], arm=cfg["arm"]))
        sim.set(35184, 1)
    if cfg["family"] == "ES":
        sim.regs = _EsRegs(lambda a: (a * 40503 + salt * 977 + 11) & 0x7FFF)
    rec = _Recorder(siminv.responder_for(inv, sim), cfg.get("tcp", False))
    siminv.attach_direct(inv, rec)

    def call(coro):
        try:
            return ("ok", repr(run_sync(coro)))
        except (InverterError, ValueError, NotImplementedError) as ex:   # NotImplementedError: computed kinds, a C16 finding
            return ("exc", type(ex).__name__)

    def read_all(ids, store=None):
        for kind, sid in ids:
            n0 = len(rec.reqs)
            r = call(inv.read_setting(sid) if kind == "setting" else inv.read_sensor(sid))
            if store is not None:
                store[(kind, sid)] = (r, tuple(rec.reqs[n0:]))

    def ids_now():
        return [("setting", s.id_) for s in inv.settings()] + [("sensor", s.id_) for s in inv.sensors()[::7]]

    if hist == "preread":
        read_all(ids_now())
    elif hist == "failed-info-then-preread":
        rec.fail_next = 1
        call(inv.read_device_info())
        read_all(ids_now())
    elif hist == "runtime-first":
        call(inv.read_runtime_data())
        read_all(ids_now()[:40])
    info = call(inv.read_device_info())
    if hist == "info-twice":
        read_all(ids_now())
        call(inv.read_device_info())
    if hist.startswith("failed-poll:"):
        # one poll in which request k gets no answer (possibly the fallback read after a refused block), then a clean one
        rec.fail_at = int(hist.split(":")[1])
        call(inv.read_runtime_data())
        rec.fail_at = None
        call(inv.read_runtime_data())
    out = {}
    runtime = None
    for _ in range(3):      # the documented double fallback may fail one poll
        try:
            runtime = run_sync(inv.read_runtime_data())
            break
        except InverterError:
            pass
    ids = ids_now()
    if hist == "reverse-twice":
        read_all(list(reversed(ids)))
        read_all(list(reversed(ids)), out)
    else:
        read_all(ids, out)
    defs = {("setting", s.id_): s for s in inv.settings()}
    defs["__runtime__"] = runtime
    return info, out, defs


class _EsRegs(dict):
    def __init__(self, fn):
        super().__init__()
        self.fn = fn

    def get(self, a, default=0):
        return dict.get(self, a, self.fn(a))


def history_job(job):
    part, parts = job
    acc = Acc()
    cfgs = _hist_configs()
    for i, cfg in enumerate(cfgs):
        if i % parts != part:
            continue
        try:
            info0, base, defs = _run_history(cfg, "fresh", i)
        except Exception as ex:
            raise harness.HarnessError("C12 history baseline failed for %r: %r" % (cfg, ex))
        # absolute: a Modbus setting is fetched by ONE read of exactly its own registers
        if cfg["family"] != "ES":
            for key, (r, reqs) in base.items():
                s = defs.get(key)
                if s is None or not reqs or key == "__runtime__":
                    continue
                try:
                    op = rw.parse_tcp_request(b"\0\1" + reqs[-1])[1] if cfg.get("tcp") else rw.parse_rtu_request(reqs[-1])
                except rw.ParseError:
                    continue
                want = (s.offset, (s.size_ + s.size_ % 2) // 2)
                acc.case()
                if op["kind"] == "read" and (op["reg"], op["count"]) != want:
                    acc.fail("C12|history|foreign-registers|fresh", "%s '%s' lists registers %d+%d but was fetched from %d+%d" % (
                        key[0], key[1], want[0], want[1], op["reg"], op["count"]), {"history": True, "cfg": cfg, "hist": "fresh"})
        for hist in HISTORIES[1:]:
            case = {"history": True, "cfg": cfg, "hist": hist}
            acc.case()
            acc.nontrivial("history", repr(sorted(cfg.items())), hist)
            try:
                info, got, gdefs = _run_history(cfg, hist, i)
            except Exception as ex:
                acc.fail("C12|history|exception|%s" % type(ex).__name__, "%r in history %s" % (ex, hist), case)
                continue
            # bulk read: an id reported by both objects has the same value (same registers) - whatever was read or failed before
            r0, r1 = defs.get("__runtime__"), gdefs.get("__runtime__")
            if r0 is not None and r1 is not None:
                bad = [k for k in r0 if k in r1 and not rs.same(r0[k], r1[k]) and repr(r0[k]) != repr(r1[k]) and k != "timestamp"]
                if bad:
                    acc.fail("C12|history|runtime-value-differs|%s" % cfg["family"],
                             "read_runtime_data()['%s'] is %r on a fresh object but %r after history '%s' (same register contents)" % (
                                 bad[0], r0[bad[0]], r1[bad[0]], hist), case)
                    continue
            if info != info0 or set(got) != set(base):
                continue    # the device-info outcome / listed ids differ: not comparable (other properties)
            for key in base:
                if got[key][1] != base[key][1]:
                    acc.fail("C12|history|foreign-registers|%s" % cfg["family"],
                             "%s '%s' is fetched with request(s) %s on a fresh object but %s after history '%s' (the same ids were only READ before)" % (
                                 key[0], key[1], [x.hex() for x in base[key][1]], [x.hex() for x in got[key][1]], hist), case)
                    break
                if got[key][0] != base[key][0]:
                    acc.fail("C12|history|value-differs|%s" % cfg["family"],
                             "%s '%s' reads %s on a fresh object but %s after history '%s' (same register contents)" % (
                                 key[0], key[1], base[key][0], got[key][0], hist), case)
                    break
        if len(acc.samples) < 1:
            acc.sample({"history": True, "cfg": cfg, "hist": list(HISTORIES)})
    return acc


# ---------------------------------------------------------------------------------------------
# API level non-interference: read_runtime_data() on a simulated inverter; ONE register is changed and every typed sensor
# whose own registers do not include it must report exactly what it reported before
# ---------------------------------------------------------------------------------------------
CODE_KINDS = ("Integer", "IntegerS", "Byte", "ByteH", "ByteL", "Enum", "EnumH", "EnumL", "Enum2", "Long", "LongS", "EnumBitmap4", "EnumBitmap22")
_NIB = (0, 1, 2, 4, 8, 0xF)
FOREIGN_PALETTE = sorted(set(range(0, 34)) | {a << 12 | b << 8 | c << 4 | d for a in _NIB for b in _NIB for c in _NIB for d in _NIB}
                         | {1 << k for k in range(16)} | {0xFFFF ^ (1 << k) for k in range(16)} | {0x7FFF, 0x8000, 0xFFFE, 0x00FF, 0xFF00, 0x0100, 0x0101, 0x0111, 0x0333, 0x0444})
FOREIGN_CONFIGS = [
    {"family": "ET", "serial": b"925KETT000W00001", "rated_power": 25000, "refuse": [], "battery_mode": 1, "tcp": False},
    {"family": "ET", "serial": b"9010KETU000W0000", "rated_power": 10000, "refuse": ["meter_ext2"], "battery_mode": 1, "tcp": True},
    {"family": "ET", "serial": b"95000EHU000W0001", "rated_power": 5000, "refuse": ["meter_ext2", "meter_ext"], "battery_mode": 2, "tcp": False},
    {"family": "DT", "serial": b"9010KDTU000W0000", "refuse": [], "tcp": False},
    {"family": "DT", "serial": b"9010KMSU000W0000", "refuse": [], "tcp": True},
    {"family": "ES", "serial": b"95048ESU000W0000", "firmware": b"02041"},
]


def _foreign_target(cfg, salt):
    from vlib import siminv
    from vlib.harness import run_sync
    img = lambda a: (a * 40503 + salt * 977 + 11) & 0x7FFF
    inv, sim = siminv.build_direct(dict(cfg), default=img)
    if cfg["family"] == "ES":
        sim.runtime = bytearray((i * 37 + salt * 11 + 5) & 0x7F for i in range(len(sim.runtime)))
    run_sync(inv.read_device_info())
    return inv, sim


def _windows(inv, fam):
    """typed sensors of the object with the set of register addresses (ES: byte offsets) that are their own"""
    out = []
    for s_ in inv.sensors():
        tn = rs.type_name(s_)
        if tn in rs.COMPUTED or rs.width(s_) is None:
            continue
        w = rs.width(s_)
        own = set(range(s_.offset, s_.offset + w)) if fam == "ES" else set(range(s_.offset, s_.offset + (w + 1) // 2))
        out.append((s_.id_, tn, own))
    # an id the tables list twice (meter_e_total_exp / imp: Float and Energy8) is reported from its LAST definition: every register of
    # any of its definitions is its own
    merged = {}
    for sid, tn, own in out:
        merged.setdefault(sid, set()).update(own)
    return [(sid, tn, merged[sid]) for sid, tn, own in out]


def foreign_job(job):
    """job = (config index, part, parts, all_registers, salt)"""
    from vlib.harness import run_sync
    ci, part, parts, all_regs, salt = job
    cfg = FOREIGN_CONFIGS[ci]
    fam = cfg["family"]
    acc = Acc()
    inv, sim = _foreign_target(cfg, salt)
    base = run_sync(inv.read_runtime_data())
    wins = _windows(inv, fam)
    cells = sorted({a for _i, tn, own in wins if all_regs or tn in CODE_KINDS for a in own})
    if fam == "ES":
        cells = sorted({a & ~1 for a in cells})
    mine = cells[part::parts]
    for a in mine:
        if fam == "ES":
            old = bytes(sim.runtime[a:a + 2])
        else:
            old = sim.get(a) if hasattr(sim, "get") else sim.regs.get(a, 0)
        touched = {a, a + 1} if fam == "ES" else {a}
        for v in FOREIGN_PALETTE:
            acc.case()
            if fam == "ES":
                sim.runtime[a:a + 2] = bytes((v >> 8, v & 0xFF))
            else:
                sim.set(a, v)
            try:
                d = run_sync(inv.read_runtime_data())
            except Exception as ex:
                acc.fail("C12|api-foreign|%s|%s" % (fam, type(ex).__name__), "read_runtime_data raised %r with register %d = 0x%04x" % (ex, a, v),
                         {"api_foreign": True, "config": ci, "cell": a, "value": v, "salt": salt})
                continue
            acc.nontrivial("api-foreign", ci, a, v)
            for sid, tn, own in wins:
                if own & touched or sid not in base or sid not in d:     # (which ids are reported is C15's subject: battery_mode 0 = no battery block)
                    continue
                if repr(d[sid]) != repr(base[sid]):
                    acc.fail("C12|api-foreign|%s|other-register-changed-value" % fam,
                             "read_runtime_data(): %s (%s, own registers %s) changed from %r to %r when only register %d was set to 0x%04x" % (
                                 sid, tn, sorted(own)[:4], base[sid], d.get(sid), a, v),
                             {"api_foreign": True, "config": ci, "cell": a, "value": v, "salt": salt})
                    break
        if fam == "ES":
            sim.runtime[a:a + 2] = old
        else:
            sim.set(a, old)
    if mine:
        acc.sample({"api_foreign": True, "config": ci, "cells": len(mine), "palette": len(FOREIGN_PALETTE), "first_cell": mine[0]})
    return acc


def _foreign_replay(case):
    from vlib.harness import run_sync
    acc = Acc()
    cfg = FOREIGN_CONFIGS[case["config"]]
    fam = cfg["family"]
    inv, sim = _foreign_target(cfg, case["salt"])
    base = run_sync(inv.read_runtime_data())
    a, v = case["cell"], case["value"]
    if fam == "ES":
        sim.runtime[a:a + 2] = bytes((v >> 8, v & 0xFF))
    else:
        sim.set(a, v)
    acc.case()
    d = run_sync(inv.read_runtime_data())
    touched = {a, a + 1} if fam == "ES" else {a}
    for sid, tn, own in _windows(inv, fam):
        if own & touched or sid not in base or sid not in d:
            continue
        if repr(d[sid]) != repr(base[sid]):
            acc.fail("C12|api-foreign|%s|other-register-changed-value" % fam, "%s changed from %r to %r when only register %d was set to 0x%04x" % (
                sid, base[sid], d.get(sid), a, v), case)
            break
    return acc


def _reference_value(sim, x):
    """("ok", value) | ("undecodable", None): reference reading of sensor x from the simulator's register file"""
    w = rs.width(x)
    raw = sim.get_bytes(x.offset, (w + 1) // 2)
    tn = rs.type_name(x)
    own = raw[:2] if tn in ("ByteL", "EnumL") else raw[:w]
    try:
        return ("ok", rs.decode(x, own))
    except rs.Undecodable:
        return ("undecodable", None)


def faulty_poll_job(job):
    """read_runtime_data() in which request k gets no answer / a 'busy' exception frame, then a clean poll: whatever a poll RETURNS,
    every typed value in it is the reference reading of the sensor's own registers (nothing is decoded from another block's answer)."""
    from goodwe.exceptions import InverterError
    from vlib import siminv
    from vlib.harness import run_sync
    from collections import Counter
    ci, salt = job
    cfg = FOREIGN_CONFIGS[ci]
    fam = cfg["family"]
    acc = Acc()
    if fam == "ES":
        return acc
    for k in range(0, 8):
        for kind in ("silent", "busy"):
            inv, sim = _foreign_target(cfg, salt)
            inner = inv._verif_responder

            class _Once:
                def __init__(self):
                    self.n = None

                def respond(self, data):
                    if self.n is not None:
                        self.n -= 1
                        if self.n == -1:
                            return None if kind == "silent" else inner.exception(data, 6)
                    return inner.respond(data)

                def __getattr__(self, name):
                    return getattr(inner, name)
            once = _Once()
            siminv.attach_direct(inv, once)
            for phase in ("faulty", "clean", "clean"):
                once.n = k if phase == "faulty" else None
                acc.case()
                try:
                    d = run_sync(inv.read_runtime_data())
                except InverterError:
                    continue
                acc.nontrivial("faulty-poll", ci, k, kind, phase)
                listed = Counter(x.id_ for x in inv.sensors())
                for x in inv.sensors():
                    if x.id_ not in d or listed[x.id_] != 1 or rs.type_name(x) in rs.COMPUTED or rs.width(x) is None:
                        continue
                    if fam == "ET" and x.id_ in ("apparent_power2", "apparent_power3"):
                        continue      # beyond the MPPT window: the known finding of C14 / C16
                    rk, want = _reference_value(sim, x)
                    got = d[x.id_]
                    if (rk == "undecodable" and got is not None) or (rk == "ok" and not rs.same(got, want) and repr(got) != repr(want)):
                        acc.fail("C12|api-faulty-poll|%s|value-differs" % fam, "%s poll (request %d %s): %s = %r, the reference reading of its registers %d.. is %r" % (
                            phase, k, "unanswered" if kind == "silent" else "answered 'busy'", x.id_, got, x.offset, want if rk == "ok" else "undecodable"),
                            {"faulty_poll": True, "config": ci, "salt": salt})
                        break
    acc.sample({"faulty_poll": True, "config": ci, "salt": salt})
    return acc


def es_register_settings_job(job):
    """ES family, register-addressed settings (eco-mode groups and their switches, read one by one over AA55 or Modbus): read_setting(id)
    returns the reference reading of the setting's own registers in the simulator, for generated register contents."""
    from vlib import siminv
    from vlib.harness import run_sync
    from checks.c17 import group_value_ok
    seed, = job
    acc = Acc()
    for fw in (b"02041", b"02047", b"2214E"):
        for k in range(24):
            cfg = {"family": "ES", "serial": b"95048ESU000W0000", "firmware": fw}
            inv, sim = siminv.build_direct(cfg, default=lambda a, k=k: mix(seed, k, a) & 0xFFFF)
            run_sync(inv.read_device_info())
            for sid, st in list(inv._settings.items()):
                if st.offset <= 255:
                    continue
                tn = rs.type_name(st)
                nreg = max(1, (st.size_ + 1) // 2)
                # a decodable group / switch word in the setting's registers (k selects the fields)
                if tn in ("EcoModeV1",):
                    raw = bytes((k % 24, (k * 7) % 60, (k + 5) % 24, (k * 11) % 60)) + ((k * 3) % 101).to_bytes(2, "big", signed=False) + bytes(((0xFF, 0x00)[k % 2], (k * 5) % 128))
                elif tn in rs.GROUPS:
                    continue        # v2 groups: covered at table level and by C17 / C19
                else:
                    raw = bytes(((k * 37) & 0xFF, (k * 91 + 3) & 0xFF))
                if st.offset > 30000:
                    sim.modbus.set_bytes(st.offset, raw[:2 * nreg].ljust(2 * nreg, b"\0"))
                else:
                    for i in range(nreg):
                        sim.reg_set(st.offset + i, int.from_bytes(raw[2 * i:2 * i + 2].ljust(2, b"\0"), "big"))
                acc.case()
                acc.nontrivial("es-setting", fw, sid, raw)
                case = {"es_settings": True, "seed": seed}
                try:
                    got = run_sync(inv.read_setting(sid))
                except ValueError:
                    acc.cls("es-setting|ValueError")
                    continue
                except Exception as ex:
                    acc.fail("C12|es-setting|%s" % type(ex).__name__, "read_setting(%r) raised %r" % (sid, ex), case)
                    continue
                if tn == "EcoModeV1":
                    ok = group_value_ok(got, raw, tn)
                    if ok is not True:
                        acc.fail("C12|es-setting|EcoModeV1|value-differs", "read_setting(%r) with registers %s: %s" % (sid, raw.hex(), ok), case)
                elif tn in ("ByteH", "Byte"):
                    want = int.from_bytes(raw[0:1], "big", signed=True)
                    if got != want:
                        acc.fail("C12|es-setting|%s|value-differs" % tn, "read_setting(%r) = %r, register word %s, its high byte is %r" % (sid, got, raw.hex(), want), case)
    acc.sample({"es_settings": True, "seed": seed})
    return acc


def overlap_job(job):
    """Two single-value reads overlap on one inverter object (the same id twice, two ids on the same register, an id and the bulk
    read): each call still returns the documented reading of its own registers - computed here from the simulator's register file by
    the reference decoder."""
    from vlib import siminv
    from vlib.harness import run_sync
    ci, salt = job
    cfg = FOREIGN_CONFIGS[ci]
    fam = cfg["family"]
    acc = Acc()
    if fam == "ES":
        return acc      # ES reads single values through the bulk read
    inv, sim = _foreign_target(cfg, salt)
    from collections import Counter
    listed = Counter(x.id_ for x in inv.sensors())
    # (ids that the tables list twice - meter_e_total_exp/imp, Float and Energy8 - resolve to their LAST definition in read_sensor:
    #  which definition answers is C16's subject, they are left out here)
    typed = [x for x in inv.sensors() if rs.type_name(x) not in rs.COMPUTED and rs.width(x) is not None and listed[x.id_] == 1]
    by_reg = {}
    for x in typed:
        by_reg.setdefault(x.offset, []).append(x)

    def reference(x):
        w = rs.width(x)
        raw = sim.get_bytes(x.offset, (w + 1) // 2)
        tn = rs.type_name(x)
        own = raw[-1:] if (w == 1 and tn in ("ByteL", "EnumL")) else raw[:w]
        if tn in ("ByteL", "EnumL"):
            own = raw[:2]
        try:
            return ("ok", rs.decode(x, own))
        except rs.Undecodable:
            return ("undecodable", None)

    for k, x in enumerate(typed):
        if k % 4 != salt % 4 and len(by_reg[x.offset]) < 2:
            continue
        partners = [("same", lambda x=x: inv.read_sensor(x.id_), x)]
        for y in by_reg[x.offset]:
            if y is not x:
                partners.append(("alias:" + y.id_, lambda y=y: inv.read_sensor(y.id_), y))
        partners.append(("bulk", lambda: inv.read_runtime_data(), None))
        for pname, pfn, py in partners:
            for offset in (0, 1, 2):
                acc.case()
                acc.nontrivial("overlap", ci, x.id_, pname, offset)
                res, exc, others = siminv.run_overlapping(inv, lambda x=x: inv.read_sensor(x.id_), [(pfn, offset)], with_others=True)
                case = {"overlap": True, "config": ci, "salt": salt, "sensor": x.id_, "partner": pname, "offset": offset}
                for who, sensor, (r, e) in (("first", x, (res, exc)), ("second", py, others[0])):
                    if sensor is None:
                        continue
                    kind, want = reference(sensor)
                    if e is not None:
                        if kind == "undecodable" and isinstance(e, ValueError):
                            continue
                        acc.fail("C12|api-overlap|%s|%s" % (fam, type(e).__name__), "read_sensor(%r) overlapping with %s raised %r" % (sensor.id_, pname, e), case)
                        break
                    if kind == "ok" and not rs.same(r, want) and repr(r) != repr(want):
                        acc.fail("C12|api-overlap|%s|value-differs" % fam, "%s caller: read_sensor(%r) = %r while overlapping with %s (started %d steps later), the "
                                 "documented reading of its registers is %r" % (who, sensor.id_, r, pname, offset, want), case)
                        break
    acc.sample({"overlap": True, "config": ci, "sensors": len(typed)})
    return acc


def run(ctx):
    ctx.shard(es_register_settings_job, [(ctx.seed + k,) for k in range(ctx.pick(1, 4))],
              "ES register-addressed settings (eco-mode v1 groups, switches) read one by one: value = reference reading of the setting's own registers")
    ctx.shard(faulty_poll_job, [(ci, ctx.seed + k) for ci in range(len(FOREIGN_CONFIGS)) for k in range(ctx.pick(1, 3))],
              "API level: a poll in which request k fails (no answer / busy), then clean polls - every typed value a poll returns equals the reference reading of its own registers")
    ctx.shard(overlap_job, [(ci, ctx.seed + k) for ci in range(len(FOREIGN_CONFIGS)) for k in range(ctx.pick(1, 4))],
              "API level: two single-value reads (same id / ids sharing a register / the bulk read) overlap on one object; each returns the reference reading of its own registers")
    parts = 5 if ctx.quick else 16
    ctx.shard(foreign_job, [(ci, p, parts, not ctx.quick, ctx.seed) for ci in ((0, 3, 5) if ctx.quick else range(len(FOREIGN_CONFIGS))) for p in range(parts)],
              "API level: one register of the blocks read by read_runtime_data() takes %d values (small codes, nibble patterns, single bits); every "
              "typed sensor that does not own it must keep its value (quick: registers of code/enum/integer sensors; thorough: every register)" % len(FOREIGN_PALETTE))
    ctx.shard(history_job, [(p, 16) for p in range(16)],
              "API level: every setting id + every 7th sensor id read on a fresh object vs. after reading histories (pre-reads before / "
              "around read_device_info, failed device info, reverse order) - same requests, same values")
    sensors = typed_sensors()
    ctx.extra["sensor_instances"] = len(sensors)
    per = (len(sensors) + 15) // 16
    ctx.shard(instance_job, [(lo, lo + per, ctx.pick(230, 1000), ctx.seed) for lo in range(0, len(sensors), per)],
              "every sensor instance x boundary/patterned own values x 3 windows (RTU/TCP, first address offsets) + non-interference")
    narrow = [k for k, (f, t, i, s) in enumerate(sensors) if rs.width(s) <= 2]
    if ctx.quick:
        seen, chosen = set(), []
        for k in narrow:
            tn = rs.type_name(sensors[k][3])
            key = (tn, sensors[k][0] == "ES" and sensors[k][3].offset <= 255)
            if key not in seen:
                seen.add(key)
                chosen.append(k)
        ctx.exhaustive_parts.append("all 65,536 (256 for 1-byte) own-field values for one instance of every 1/2-byte sensor type (per block kind)")
    else:
        chosen = narrow
        ctx.exhaustive_parts.append("all 65,536 (256 for 1-byte) own-field values for EVERY 1/2-byte sensor instance")
    jobs = []
    for k in chosen:
        top = 256 if rs.width(sensors[k][3]) == 1 else 65536
        step = 16384 if ctx.quick else 65536
        for lo in range(0, top, step):
            jobs.append((k, lo, min(top, lo + step)))
    ctx.shard(sweep_job, jobs, "exhaustive 16-bit sweeps")
    n = ctx.pick(8000, 160000)
    ctx.shard(hyp_job, [(ctx.seed * 1000 + i, n // 16) for i in range(16)], "hypothesis: wide fields, free windows")


def replay(ctx, case):
    if case.get("beyond"):
        sb = tables.find(case["family"], case["table"], case["index"])
        check_beyond(ctx.acc, case["family"], case["table"], case["index"], sb, case["gap"], case["salt"], case["tcp"])
        return
    if case.get("history"):
        ctx.acc.merge(history_job((0, 1)))
        return
    if case.get("overlap"):
        ctx.acc.merge(overlap_job((case["config"], case["salt"])))
        return
    if case.get("es_settings"):
        ctx.acc.merge(es_register_settings_job((case["seed"],)))
        return
    if case.get("faulty_poll"):
        ctx.acc.merge(faulty_poll_job((case["config"], case["salt"])))
        return
    if case.get("api_foreign"):
        cfg = FOREIGN_CONFIGS[case["config"]]
        ctx.acc.merge(_foreign_replay(case))
        return
    s = tables.find(case["family"], case["table"], case["index"])
    check_one(ctx.acc, case["family"], case["table"], case["index"], s, case["own"], case.get("first_delta", 0),
              case.get("salt", 0), case.get("style", 2), case.get("tcp", False))
