"""C06 - concurrent callers are serialised and each gets the answer to its own request."""
from __future__ import annotations

import asyncio
import itertools

from vlib import harness, netcase, refwire as rw
from vlib.harness import Acc
from vlib.vloop import ScriptedPeer, VLoop, World

LEVEL = "exploration"
RULE = ("case = (transport in {RTU/UDP, Modbus/TCP, AA55/UDP}, keep-alive, timeout, retries, 2..4 callers with start offsets on "
        "a T/16 grid reading distinct registers with the same count, per-transmission fault in {drop, prompt answer, delayed "
        "in-time answer, two in-time fragments}, connect latency, protocol object or inverter object after 0..6 completely failed "
        "requests). The harness owns the schedule (single-threaded asyncio: "
        "offsets + delays + latency determine the interleaving). All 2-caller schedules over a 5-point offset grid and "
        "scripts of depth 3 are enumerated; 3-4 callers and free delays are sampled by Hypothesis. Non-trivial = at least two "
        "callers overlapped (one had to wait for the lock) and at least one transmission was dropped or fragmented; distinct "
        "by the whole case.")
ASSUMPTIONS = [
    "precondition of the property holds by construction: every transmission is answered at most once and strictly before its timeout",
    "a transmission counts as 'waiting for its answer' from its send time until its complete answer was delivered or its "
    "timeout elapsed (the library closing the socket under a waiting transmission does not end the wait: within this fault "
    "domain it never has a reason to)",
    "vlib/vloop.py models the asyncio callback contract",
]
EPS = 1e-9
COUNT = 4


def tag_payload(op):
    reg = op["reg"]
    return bytes(((reg * 31 + i * 5 + 7) & 0xFF) for i in range(2 * op["count"]))


def aa_payload(cmd, payload):
    return bytes(((cmd[1] * 17 + i) & 0xFF) for i in range(20))


AA_CMDS = [("010200", "0182"), ("010600", "0186"), ("010900", "0189"), ("011a03070104", "019a"), ("011a03055001", "019a")]


def run_case(acc: Acc, case):
    acc.case()
    transport, T, R = case["transport"], case["T"], case["R"]
    offsets = case["offsets"]
    n = len(offsets)
    responder = netcase.make_responder(transport, aa_payload if transport == "aa55" else tag_payload)
    streak = case.get("streak", 0) if case.get("api") else 0
    peer = ScriptedPeer(responder, [("drop",)] * (streak * (R + 1)) + netcase.to_actions(case["script"], T), default=tuple(netcase.to_actions([case.get("default", ["answer", 1])], T)[0]))
    world = World(peer, connect_latency=case.get("latency", 0))
    loop = VLoop(world, max_time=1e5)
    inv = None
    if case.get("api"):
        # through an inverter object (the single funnel all public calls use), optionally after a streak of failed requests
        from vlib import siminv
        inv = siminv.make_inverter("ES" if transport == "aa55" else "ET", transport == "tcp", T, R)
        protocol = inv._protocol
        protocol.keep_alive = case["keep"]
    else:
        protocol = netcase.make_protocol(transport, T, R, case["keep"])
    regs = [35100 + 10 * i for i in range(n)]
    if transport == "aa55":
        from goodwe.protocol import Aa55ProtocolCommand
        cmds = [Aa55ProtocolCommand(*AA_CMDS[i]) for i in range(n)]
        want = [aa_payload(bytes.fromhex(AA_CMDS[i][0])[:2], b"") for i in range(n)]
    else:
        cmds = [protocol.read_command(r, COUNT) for r in regs]
        want = [tag_payload({"reg": r, "count": COUNT}) for r in regs]
    waits = []

    async def caller(i):
        await asyncio.sleep(netcase.secs(offsets[i], T))
        t_call = loop.vtime
        try:
            res = await (inv._read_from_socket(cmds[i]) if inv is not None else cmds[i].execute(protocol))
            return ("ok", res, t_call, loop.vtime)
        except asyncio.CancelledError as ex:
            return ("CancelledError", ex, t_call, loop.vtime)
        except Exception as ex:
            return (type(ex).__name__, ex, t_call, loop.vtime)

    async def main():
        for _ in range(streak):    # earlier requests on the same object that failed completely (silent inverter)
            try:
                await inv._read_from_socket(cmds[0])
            except Exception:
                pass
        return await asyncio.gather(*[caller(i) for i in range(n)])

    out = loop.run(main())
    loop.idle()
    errors = list(loop.errors)
    loop.shutdown()
    fails = []
    cfg = "%s|%s" % (transport, "keep" if case["keep"] else "nokeep")
    if out.hang is not None:
        return [("C06|%s|hang" % cfg, "callers never complete: %s" % out.hang, case)]
    if out.exc is not None:
        return [("C06|%s|gather-raised|%s" % (cfg, type(out.exc).__name__), repr(out.exc), case)]
    results = out.result
    # -- (3) outcome types and (2) own answers ---------------------------------------------------------------
    from goodwe.exceptions import InverterError
    overlapped = 0
    spans = sorted((r[2], r[3]) for r in results)
    for a, b in zip(spans, spans[1:]):
        if b[0] < a[1] - EPS:
            overlapped += 1
    for i, (kind, val, t_call, t_done) in enumerate(results):
        acc.cls("caller-outcome|%s" % kind)
        if kind == "ok":
            data = val.response_data()
            if data != want[i]:
                whose = [j for j in range(n) if want[j] == data]
                fails.append(("C06|%s|foreign-answer" % cfg,
                              "caller %d (%s) received %s" % (i, cmds[i], "the answer to caller %s's request" % whose if whose else data.hex()), case))
        elif not isinstance(val, InverterError):
            fails.append(("C06|%s|outcome-type|%s" % (cfg, kind), "caller %d ended with %r" % (i, val), case))
    # -- (1) serialisation ---------------------------------------------------------------------------------------
    tx = world.tx
    for idx, (t, tid, data, failed) in enumerate(tx):
        if failed:
            continue
        end = t + T
        pieces = [(dt, d) for (dt, dtid, didx, d, ok, fl) in world.deliveries if didx == idx]
        if pieces:
            full_at = max(dt for dt, _ in pieces)
            if all(ok for (dt, dtid, didx, d, ok, fl) in world.deliveries if didx == idx):
                end = min(end, full_at)
        for jdx in range(idx + 1, len(tx)):
            t2 = tx[jdx][0]
            if t2 < end - EPS:
                same = netcase.same_request(transport, data, tx[jdx][2])
                fails.append(("C06|%s|overlapping-transmissions" % cfg,
                              "transmission %d at %r (%s) while transmission %d sent at %r is still waiting for its answer until %r" % (
                                  jdx, t2, "same request" if same else "another request", idx, t, end), case))
                break
        if fails and fails[-1][0].endswith("overlapping-transmissions"):
            break
    dropped_or_frag = any(a[0] in ("drop", "frag") for _, a in peer.history)
    if overlapped and dropped_or_frag:
        acc.nontrivial(transport, case["keep"], T, R, tuple(offsets), repr(case["script"]), case.get("latency", 0), case.get("api"), streak)
    acc.cls("overlapping-callers" if overlapped else "sequential-callers")
    if errors:
        acc.cls("loop-callback-exceptions(C09)")
    return fails


def _apply(acc, case):
    for key, msg, c in run_case(acc, case):
        acc.fail(key, msg, c)


ACTIONS = [["drop"], ["answer", 0], ["answer", 9], ["frag", 9, 2, 6]]


def enum_job(job):
    transport, keep, T, R, latency = job
    acc = Acc()
    for o2 in (0, 1, 8, 17, 26):
        for script in itertools.product(ACTIONS, repeat=3):
            case = {"transport": transport, "keep": keep, "T": T, "R": R, "latency": latency, "offsets": [0, o2],
                    "script": [list(a) for a in script]}
            _apply(acc, case)
            if len(acc.samples) < 1 and script[0][0] == "drop" and o2 == 8:
                acc.sample(case)
    # long queues: 3-5 callers whose answers are slow but in time, so that the last caller waits on the lock for longer than
    # a whole request budget (retries + 1 timeouts) before it may transmit
    for n in (3, 4, 5):
        for d in (12, 15):
            for offsets in ([0] * n, list(range(n)), [0, 0] + [5] * (n - 2)):
                for extra in ([], [["frag", 9, 2, d]], [["drop"]]):
                    _apply(acc, {"transport": transport, "keep": keep, "T": T, "R": R, "latency": latency, "offsets": offsets,
                                 "script": extra, "default": ["answer", d]})
    if latency == 0:   # the same through an inverter object after 0..4 completely failed requests
        for streak in (0, 1, 3, 4):
            for o2 in (0, 1, 8, 17):
                for script in itertools.product(ACTIONS, repeat=2):
                    _apply(acc, {"transport": transport, "keep": keep, "T": T, "R": R, "latency": 0, "offsets": [0, o2],
                                 "script": [list(a) for a in script], "api": True, "streak": streak})
    return acc


def hyp_job(job):
    seed, n = job
    from hypothesis import strategies as st
    acc = Acc()
    def act(transport):
        lo = 5 if transport == "udp" else 9  # the first piece must contain the frame header (precondition of a "fragment")
        return st.one_of(st.just(["drop"]), st.tuples(st.just("answer"), st.integers(0, 15)).map(list),
                         st.tuples(st.just("frag"), st.integers(lo, 14), st.integers(0, 15), st.integers(0, 15)).map(
                             lambda a: ["frag", a[1], min(a[2], a[3]), max(a[2], a[3])]))

    @st.composite
    def cases(draw):
        transport = draw(st.sampled_from(("udp", "tcp", "aa55")))
        n = draw(st.integers(2, 4))
        return {"transport": transport, "keep": draw(st.booleans()), "T": draw(st.sampled_from((0.5, 1.0, 2.0))),
                "R": draw(st.integers(1, 3)), "latency": draw(st.integers(0, 3)),
                "offsets": draw(st.lists(st.integers(0, 40), min_size=n, max_size=n)),
                "script": draw(st.lists(act(transport), max_size=10)),
                "api": draw(st.booleans()), "streak": draw(st.sampled_from((0, 0, 1, 2, 3, 4, 6)))}

    def body(case):
        if len(acc.samples) < 3:
            acc.sample(case)
        return run_case(acc, case)

    harness.hyp_search(acc, body, [cases()], seed=seed, max_examples=n)
    return acc


def run(ctx):
    from vlib import concur
    concur.register(ctx, "C06")
    jobs = []
    for transport in ("udp", "tcp", "aa55"):
        for keep in (False, True):
            for R in (1, 2):
                for latency in (0, 2) if not ctx.quick else (0,):
                    jobs.append((transport, keep, 1.0, R, latency))
    ctx.shard(enum_job, jobs, "all 2-caller schedules over a 5-point offset grid x 4^3 fault scripts")
    ctx.exhaustive_parts.append("2 callers x offsets {0,1,8,17,26} ticks x all scripts of length 3 over {drop, prompt, delayed, fragments}")
    n = ctx.pick(4000, 100000)
    ctx.shard(hyp_job, [(ctx.seed * 1000 + i, n // 16) for i in range(16)], "hypothesis schedules with 2..4 callers")


def replay(ctx, case):
    if isinstance(case, dict) and case.get("overlap") and "callers" in case:
        from vlib import concur
        concur.replay(ctx.acc, case, concur.INVARIANTS["C06"], "C06")
        return
    _apply(ctx.acc, case)
