"""C14 - sensors are decoded only from registers that were actually fetched."""
from __future__ import annotations

import itertools

from vlib import harness, siminv
from vlib.harness import Acc, run_sync

LEVEL = "exploration"
EXHAUSTIVE = True
RULE = ("case = model configuration of a Modbus family: (ET|DT, serial-number tag from goodwe/model.py incl. the 25KET/29K9ET "
        "substrings and a neutral tag, rated power class <15000 / 15000..24999 / >=25000, battery present/absent, subset of "
        "optional blocks refused with ILLEGAL DATA ADDRESS, UDP/TCP framing); the finite product is enumerated completely. Each "
        "case runs read_device_info() and two read_runtime_data() calls against a simulated inverter that returns exact-length "
        "answers; ProtocolResponse.read is wrapped and every read must start inside the payload and return as many bytes as "
        "requested. Non-trivial = configuration selects a non-default window (extended / extended-2 meter, MPPT, battery 2, or a "
        "refusal fallback); distinct by configuration.")
ASSUMPTIONS = [
    "the simulated inverter answers every read with exactly count x 2 payload bytes (what a conforming inverter does)",
    "refusing a block means ILLEGAL DATA ADDRESS for any read touching its distinguishing registers",
    "only reads performed through ProtocolResponse.read (all sensor decoding) are observed; read_device_info slices bytes directly",
]


class ReadLog:
    def __init__(self):
        self.current = None
        self.short = []   # (sensor id, window first, window count, position, requested, returned)
        self.reads = 0


def install_wrappers(log: ReadLog):
    from goodwe.inverter import Inverter
    from goodwe.protocol import ProtocolResponse
    if getattr(ProtocolResponse, "_c14_wrapped", False):
        ProtocolResponse._c14_log = log
        return
    orig_read = ProtocolResponse.read
    orig_map = Inverter._map_response

    def read(self, size):
        pos = self._bytes.tell()
        data = orig_read(self, size)
        lg = ProtocolResponse._c14_log
        lg.reads += 1
        if len(data) < size and lg.current is not None:
            cmd = self.command
            lg.short.append((lg.current, getattr(cmd, "first_address", None), getattr(cmd, "value", None), pos, size, len(data)))
        return data

    def _map_response(response, sensors):
        lg = ProtocolResponse._c14_log
        result = {}
        for s in sensors:
            lg.current = s.id_
            try:
                result.update(orig_map(response, (s,)))
            finally:
                lg.current = None
        return result

    ProtocolResponse.read = read
    ProtocolResponse._c14_wrapped = True
    ProtocolResponse._c14_log = log
    Inverter._map_response = staticmethod(_map_response)


def check_config(acc: Acc, cfg):
    from goodwe.exceptions import RequestRejectedException
    acc.case()
    log = ReadLog()
    install_wrappers(log)
    inv, sim = siminv.build_direct(cfg, default=lambda a: (a * 13 + 5) & 0xFFFF)
    if cfg["family"] == "ET":
        sim.set(35184, cfg.get("battery_mode", 1))
    nondefault = bool(cfg.get("refuse")) or cfg.get("rated_power", 0) >= 15000 or any(
        t in cfg["serial"].decode() for t in ("25KET", "29K9ET"))
    try:
        run_sync(inv.read_device_info())
        nondefault = nondefault or getattr(inv, "_has_mppt", False) or getattr(inv, "_has_meter_extended", False)
        for _ in range(2):
            try:
                run_sync(inv.read_runtime_data())
            except RequestRejectedException:
                pass
    except Exception as ex:
        acc.fail("C14|%s|exception|%s" % (cfg["family"], type(ex).__name__), repr(ex), cfg)
        return
    if nondefault:
        acc.nontrivial(cfg["family"], cfg["serial"], cfg.get("rated_power"), cfg.get("battery_mode"), tuple(cfg.get("refuse", ())), cfg.get("tcp"))
    acc.cls("reads", log.reads)
    seen = set()
    for sid, first, count, pos, req, got in log.short:
        key = "C14|%s|short-read|window-%s+%s|%s" % (cfg["family"], first, count, sid)
        if key in seen:
            continue
        seen.add(key)
        acc.fail(key, "%s decoded from a %s-register answer starting at %s: read at byte %d asked for %d bytes, got %d "
                      "(registers beyond the fetched window)" % (sid, count, first, pos, req, got), cfg)


def configs(family):
    if family == "ET":
        serials = siminv.et_serials()
        opt = ("battery", "battery2", "meter_ext2", "meter_ext", "mppt")
        for serial in serials:
            for power in (10000, 15000, 25000):
                for bm in (0, 1):
                    for r in range(len(opt) + 1):
                        for refuse in itertools.combinations(opt, r):
                            for tcp in (False, True):
                                yield {"family": "ET", "serial": serial, "rated_power": power, "battery_mode": bm,
                                       "refuse": list(refuse), "tcp": tcp}
    else:
        for serial in siminv.dt_serials():
            for r in range(len(siminv.DT_OPTIONAL) + 1):
                for refuse in itertools.combinations(siminv.DT_OPTIONAL, r):
                    for tcp in (False, True):
                        yield {"family": "DT", "serial": serial, "refuse": list(refuse), "tcp": tcp}


def job(j):
    family, part, parts = j
    acc = Acc()
    for i, cfg in enumerate(configs(family)):
        if i % parts == part:
            check_config(acc, cfg)
            if len(acc.samples) < 1 and cfg.get("refuse"):
                acc.sample(cfg)
    return acc


def run(ctx):
    jobs = [("ET", p, 15) for p in range(15)] + [("DT", 0, 1)]
    ctx.shard(job, jobs, "complete enumeration of model configurations (direct simulator path, instrumented ProtocolResponse.read)")
    ctx.exhaustive_parts.append("ET: %d serial tags x 3 power classes x battery on/off x 32 refusal subsets x UDP/TCP; DT: %d tags x 8 refusal subsets x UDP/TCP" % (
        len(siminv.et_serials()), len(siminv.dt_serials())))


def replay(ctx, case):
    check_config(ctx.acc, case)
