"""C14 - sensors are decoded only from registers that were actually fetched."""
from __future__ import annotations

import itertools

from vlib import harness, siminv
from vlib.harness import Acc, run_sync

LEVEL = "exploration"
EXHAUSTIVE = True
RULE = ("case = model configuration of a Modbus family: (ET|DT, serial-number tag from goodwe/model.py incl. the 25KET/29K9ET "
        "substrings and a neutral tag, rated power class <15000 / 15000..24999 / >=25000, battery present/absent, subset of "
        "optional blocks refused with ILLEGAL DATA ADDRESS, UDP/TCP framing); the finite product is enumerated completely. Each "
        "case runs read_device_info() and two read_runtime_data() calls against a simulated inverter that returns exact-length "
        "answers; ProtocolResponse.read is wrapped and every read must start inside the payload and return as many bytes as "
        "requested. Non-trivial = configuration selects a non-default window (extended / extended-2 meter, MPPT, battery 2, or a "
        "refusal fallback, or a transient failure); distinct by configuration.")
ASSUMPTIONS = [
    "the simulated inverter answers every read with exactly count x 2 payload bytes (what a conforming inverter does)",
    "refusing a block means ILLEGAL DATA ADDRESS for any read touching its distinguishing registers",
    "only reads performed through ProtocolResponse.read (all sensor decoding) are observed; read_device_info slices bytes directly",
]


class ReadLog:
    def __init__(self):
        self.current = None
        self.short = []   # (sensor id, window first, window count, position, requested, returned)
        self.reads = 0


def install_wrappers(log: ReadLog):
    from goodwe.inverter import Inverter
    from goodwe.protocol import ProtocolResponse
    if getattr(ProtocolResponse, "_c14_wrapped", False):
        ProtocolResponse._c14_log = log
        return
    orig_read = ProtocolResponse.read
    orig_map = Inverter._map_response

    def read(self, size):
        pos = self._bytes.tell()
        data = orig_read(self, size)
        lg = ProtocolResponse._c14_log
        lg.reads += 1
        if len(data) < size and lg.current is not None:
            cmd = self.command
            lg.short.append((lg.current, getattr(cmd, "first_address", None), getattr(cmd, "value", None), pos, size, len(data)))
        return data

    def _map_response(response, sensors):
        lg = ProtocolResponse._c14_log
        result = {}
        for s in sensors:
            lg.current = s.id_
            try:
                result.update(orig_map(response, (s,)))
            finally:
                lg.current = None
        return result

    ProtocolResponse.read = read
    ProtocolResponse._c14_wrapped = True
    ProtocolResponse._c14_log = log
    Inverter._map_response = staticmethod(_map_response)


class TransientFault:
    """Wraps a responder: the k-th request (counted after read_device_info) fails once - no answer at all, or a Modbus
    exception other than ILLEGAL DATA ADDRESS."""

    def __init__(self, inner, k, kind, tcp):
        self.inner, self.k, self.kind, self.tcp, self.n = inner, k, kind, tcp, -10 ** 9

    def respond(self, data):
        self.n += 1
        if self.n == self.k:
            if self.kind == "silent":
                return None
            return self.inner.exception(data, 4)
        return self.inner.respond(data)


def check_config(acc: Acc, cfg):
    from goodwe.exceptions import InverterError, RequestRejectedException
    acc.case()
    log = ReadLog()
    install_wrappers(log)
    inv, sim = siminv.build_direct(cfg, default=lambda a: (a * 13 + 5) & 0xFFFF)
    if cfg["family"] == "ET":
        sim.set(35184, cfg.get("battery_mode", 1))
    if cfg.get("info"):
        inf = cfg["info"]
        if cfg["family"] == "ET":
            sim.set_bytes(0x88b8, siminv.et_device_info(serial=cfg["serial"], rated_power=cfg.get("rated_power", 10000), arm=inf["arm"], dsp1=inf["dsp1"],
                                                        dsp2=inf["dsp2"], ac_output_type=inf["ac_output_type"], modbus_version=inf["modbus_version"]))
        else:
            sim.set_bytes(0x7531, siminv.dt_device_info(serial=cfg["serial"], arm=inf["arm"], dsp1=inf["dsp1"], dsp2=inf["dsp2"]))
    if cfg.get("mbap") is not None and cfg.get("tcp") and not cfg.get("transient"):
        quirky = siminv.responder_for(inv, sim)
        quirky.mbap_len = cfg["mbap"]       # inconsistent MBAP length field (documented firmware quirk): answers are still full-length
        siminv.attach_direct(inv, quirky)
    fault = None
    if cfg.get("transient"):
        k, kind = cfg["transient"]
        fault = TransientFault(siminv.responder_for(inv, sim), k, kind, cfg.get("tcp", False))
        siminv.attach_direct(inv, fault)
    nondefault = bool(cfg.get("refuse")) or cfg.get("rated_power", 0) >= 15000 or any(
        t in cfg["serial"].decode() for t in ("25KET", "29K9ET"))
    try:
        run_sync(inv.read_device_info())
        nondefault = nondefault or getattr(inv, "_has_mppt", False) or getattr(inv, "_has_meter_extended", False)
        if fault is not None:
            fault.n = -1  # start counting with the first request of the first poll
        for _ in range(2 if fault is None else 4):
            try:
                run_sync(inv.read_runtime_data())
            except InverterError:
                pass      # refused / transiently failed poll; the following ones must still decode only what was fetched
    except Exception as ex:
        acc.fail("C14|%s|exception|%s" % (cfg["family"], type(ex).__name__), repr(ex), cfg)
        return
    if nondefault:
        acc.nontrivial(cfg["family"], cfg["serial"], cfg.get("rated_power"), cfg.get("battery_mode"), tuple(cfg.get("refuse", ())), cfg.get("tcp"), repr(cfg.get("transient")), repr(cfg.get("info")), cfg.get("mbap"))
    acc.cls("reads", log.reads)
    seen = set()
    for sid, first, count, pos, req, got in log.short:
        key = "C14|%s|short-read|window-%s+%s|%s" % (cfg["family"], first, count, sid)
        if key in seen:
            continue
        seen.add(key)
        acc.fail(key, "%s decoded from a %s-register answer starting at %s: read at byte %d asked for %d bytes, got %d "
                      "(registers beyond the fetched window)" % (sid, count, first, pos, req, got), cfg)


def configs(family):
    n = 0
    if family == "ET":
        serials = siminv.et_serials()
        opt = ("battery", "battery2", "meter_ext2", "meter_ext", "mppt")
        for serial in serials:
            for power in (10000, 15000, 25000):
                for bm in (0, 1):
                    for r in range(len(opt) + 1):
                        for refuse in itertools.combinations(opt, r):
                            for tcp in (False, True):
                                n += 1
                                yield {"family": "ET", "serial": serial, "rated_power": power, "battery_mode": bm,
                                       "refuse": list(refuse), "tcp": tcp, "mbap": (None, 6, 0, 3, None, 0xFFFF, 2, 8)[(n // 2) % 8]}
    else:
        for serial in siminv.dt_serials():
            for r in range(len(siminv.DT_OPTIONAL) + 1):
                for refuse in itertools.combinations(siminv.DT_OPTIONAL, r):
                    for tcp in (False, True):
                        n += 1
                        yield {"family": "DT", "serial": serial, "refuse": list(refuse), "tcp": tcp, "mbap": (None, 6, 0, 3)[(n // 2) % 4]}


def transient_configs():
    """Reduced serial set x everything else x one transient failure at request k of the polling sequence."""
    serials = [b"9010KETU000W0000", b"9010KETT000W0000", b"925KETT000W00001", b"929K9ETT00W00001", b"95000EHU000W0001", b"9010KXYZ000W0000"]
    opt = ("battery", "battery2", "meter_ext2", "meter_ext", "mppt")
    for serial in serials:
        for power in (10000, 15000, 25000):
            for r in range(len(opt) + 1):
                for refuse in itertools.combinations(opt, r):
                    for k in range(0, 9):
                        for kind in ("silent", "busy"):
                            yield {"family": "ET", "serial": serial, "rated_power": power, "battery_mode": 1, "refuse": list(refuse),
                                   "tcp": bool(k & 1), "transient": [k, kind]}
    for serial in (b"9010KDTU000W0000", b"9010KDSN000W0000"):
        for refuse in ((), ("meter",)):
            for k in range(0, 4):
                for kind in ("silent", "busy"):
                    yield {"family": "DT", "serial": serial, "refuse": list(refuse), "tcp": False, "transient": [k, kind]}


def devinfo_configs():
    """Firmware / device-info fields that capability decisions may depend on: ARM and DSP versions, output type, power boundaries."""
    serials = [b"9010KETU000W0000", b"9010KETT000W0000", b"95000EHU000W0001", b"9010KBTU000W0000", b"929K9ETT00W00001"]
    for serial in serials:
        for power in (0, 3000, 14999, 15000, 24999, 25000, 65535):
            for arm in range(0, 48):
                for refuse in ((), ("meter_ext2",), ("meter_ext",), ("mppt", "battery2")):
                    yield {"family": "ET", "serial": serial, "rated_power": power, "battery_mode": 1, "refuse": list(refuse), "tcp": bool(arm & 1),
                           "info": {"arm": arm, "dsp1": (arm * 3) % 40, "dsp2": arm % 7, "ac_output_type": arm % 3, "modbus_version": arm % 5}}
    for serial in (b"9010KDTU000W0000", b"9010KDSN000W0000", b"9010KMSU000W0000"):
        for arm in range(0, 48):
            for refuse in ((), ("meter",)):
                yield {"family": "DT", "serial": serial, "refuse": list(refuse), "tcp": bool(arm & 1), "info": {"arm": arm, "dsp1": arm % 30, "dsp2": (arm * 5) % 30}}


def check_concurrent(acc: Acc, cfg):
    """Two public calls overlap on ONE inverter object (a poll and a re-detection, or two polls): requests are served one at a
    time in arrival order, as the protocol lock does; the second call starts `offset` scheduling steps after the first.
    Whatever the interleaving, nothing may be decoded from beyond the answer that was fetched."""
    import asyncio
    from goodwe.exceptions import InverterError, RequestFailedException
    from goodwe.protocol import ProtocolResponse
    acc.case()
    log = ReadLog()
    install_wrappers(log)
    inv, sim = siminv.build_direct(cfg, default=lambda a: (a * 13 + 5) & 0xFFFF)
    sim.set(35184, cfg.get("battery_mode", 1)) if cfg["family"] == "ET" else None
    responder = siminv.responder_for(inv, sim)
    second, offset = cfg["concurrent"]
    acc.nontrivial("concurrent", cfg["family"], cfg["serial"], cfg.get("rated_power"), tuple(cfg.get("refuse", ())), cfg.get("tcp"), second, offset)

    async def scenario():
        lock = asyncio.Lock()

        async def _read_from_socket(command):
            async with lock:
                req = command.request_bytes()
                await asyncio.sleep(0)
                resp = responder.respond(req)
                if resp is None:
                    raise RequestFailedException("no answer", 1)
                if command.validator(resp):
                    return ProtocolResponse(resp, command)
                raise RequestFailedException("refused by the validator", 1)

        inv._read_from_socket = _read_from_socket
        await inv.read_device_info()

        async def a():
            try:
                await inv.read_runtime_data()
            except InverterError:
                pass

        async def b():
            for _ in range(offset):
                await asyncio.sleep(0)
            try:
                await (inv.read_device_info() if second == "info" else inv.read_runtime_data())
            except InverterError:
                pass

        await asyncio.gather(a(), b())
        await a()

    loop = asyncio.new_event_loop()
    try:
        loop.run_until_complete(scenario())
    except Exception as ex:
        acc.fail("C14|%s|concurrent|exception|%s" % (cfg["family"], type(ex).__name__), repr(ex), cfg)
        return
    finally:
        loop.close()
    seen = set()
    for sid, first, count, pos, req, got in log.short:
        key = "C14|%s|short-read|window-%s+%s|%s" % (cfg["family"], first, count, sid)   # same keys as the sequential cases (known finding: MPPT window)
        if key in seen:
            continue
        seen.add(key)
        acc.fail(key, "%s decoded from a %s-register answer starting at %s: read at byte %d asked for %d bytes, got %d, while a %s overlapped the poll "
                      "(started %d steps later)" % (sid, count, first, pos, req, got, "read_device_info()" if second == "info" else "second read_runtime_data()", offset), cfg)


def concurrent_configs():
    serials = [b"9010KETU000W0000", b"925KETT000W00001", b"929K9ETT00W00001", b"95000EHU000W0001"]
    opt = ("battery2", "meter_ext2", "meter_ext", "mppt")
    for serial in serials:
        for power in (10000, 15000, 25000):
            for r in range(len(opt) + 1):
                for refuse in itertools.combinations(opt, r):
                    for second in ("info", "poll"):
                        for offset in range(0, 14):
                            yield {"family": "ET", "serial": serial, "rated_power": power, "battery_mode": 1, "refuse": list(refuse),
                                   "tcp": bool(offset & 1), "concurrent": [second, offset]}
    for serial in (b"9010KDTU000W0000", b"9010KDSN000W0000"):
        for refuse in ((), ("meter",)):
            for second in ("info", "poll"):
                for offset in range(0, 8):
                    yield {"family": "DT", "serial": serial, "refuse": list(refuse), "tcp": False, "concurrent": [second, offset]}


def concurrent_job(j):
    part, parts = j
    acc = Acc()
    for i, cfg in enumerate(concurrent_configs()):
        if i % parts == part:
            check_concurrent(acc, cfg)
            if len(acc.samples) < 1 and cfg["refuse"] == ["meter_ext2"]:
                acc.sample(cfg)
    return acc


def devinfo_job(j):
    part, parts = j
    acc = Acc()
    for i, cfg in enumerate(devinfo_configs()):
        if i % parts == part:
            check_config(acc, cfg)
            if len(acc.samples) < 1 and cfg["info"]["arm"] == 24:
                acc.sample(cfg)
    return acc


def transient_job(j):
    part, parts = j
    acc = Acc()
    for i, cfg in enumerate(transient_configs()):
        if i % parts == part:
            check_config(acc, cfg)
            if len(acc.samples) < 1 and cfg["refuse"] == ["meter_ext2"]:
                acc.sample(cfg)
    return acc


def job(j):
    family, part, parts = j
    acc = Acc()
    for i, cfg in enumerate(configs(family)):
        if i % parts == part:
            check_config(acc, cfg)
            if len(acc.samples) < 1 and cfg.get("refuse"):
                acc.sample(cfg)
    return acc


def run(ctx):
    jobs = [("ET", p, 15) for p in range(15)] + [("DT", 0, 1)]
    ctx.shard(job, jobs, "complete enumeration of model configurations (direct simulator path, instrumented ProtocolResponse.read)")
    ctx.shard(devinfo_job, [(p, 16) for p in range(16)], "device-info sweep: ARM firmware 0..47 (with DSP versions, output type, Modbus version) x power boundaries x capability classes")
    ctx.exhaustive_parts.append("5 ET capability classes x 7 rated-power boundary values x ARM firmware 0..47 x 4 refusal sets; 3 DT classes x ARM 0..47 x 2")
    ctx.shard(transient_job, [(p, 16) for p in range(16)], "same, plus one transient failure (no answer / exception 4) at request k of the polling sequence, 4 polls")
    ctx.exhaustive_parts.append("6 ET capability classes x 3 power classes x 32 refusal subsets x transient failure at request 0..8 x {silent, busy}; DT likewise")
    ctx.shard(concurrent_job, [(p, 16) for p in range(16)], "a re-detection or a second poll overlaps a poll on the same object (every start offset 0..13, requests served in arrival order)")
    ctx.exhaustive_parts.append("ET: %d serial tags x 3 power classes x battery on/off x 32 refusal subsets x UDP/TCP; DT: %d tags x 8 refusal subsets x UDP/TCP" % (
        len(siminv.et_serials()), len(siminv.dt_serials())))


def replay(ctx, case):
    if case.get("concurrent"):
        check_concurrent(ctx.acc, case)
        return
    check_config(ctx.acc, case)
