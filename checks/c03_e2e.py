"""C03, end-to-end part: what the scripted peer actually receives (incl. retransmissions) is parsed by the strict
reference decoder; retransmissions must be byte-identical (Modbus/TCP: apart from a changing, non-zero transaction id)."""
from __future__ import annotations

from vlib import netcase, refwire as rw
from vlib.harness import Acc

SPECS = [("read", 35100, 125), ("read", 0xFFFF, 1), ("write", 47510, -1), ("write", 0, -32768), ("write", 0x8000, 32767),
         ("write_multi", 47547, bytes(range(12))), ("write_multi", 0xFFF0, bytes([0xFF] * 246)), ("write_multi", 1, b"\x80\x00")]
AA_SPECS = [("aa55", "010200", "0182"), ("aa55", "011a03070104", "019a"), ("aa55", "02390507000100ff", "02b9"),
            ("aa55", "02390b070108" + "00" * 8, "02b9"), ("aa55", "0335020fa0", "03b5")]


def want_op(spec, addr):
    if spec[0] == "read":
        return rw.op_read(addr, spec[1], spec[2])
    if spec[0] == "write":
        return rw.op_write(addr, spec[1], spec[2])
    return rw.op_write_multi(addr, spec[1], spec[2])


def job(j):
    transport, keep = j
    acc = Acc()
    specs = AA_SPECS if transport in ("aa55", "aa55tcp") else SPECS
    for spec in specs:
        for R, script in ((2, []), (3, [["drop"], ["garbage", 2], ["answer", 1]]), (1, [["short", 1]]), (2, [["lone", 9, 2]]), (3, [["drop"], ["drop"], ["answer", 1]])):
            case = {"e2e": True, "transport": transport, "keep": keep, "T": 1.0, "R": R, "script": script, "spec": list(spec)}
            acc.case()
            obs = netcase.run_single(case, command=tuple(spec))
            if len(obs.tx) > 1:
                acc.nontrivial(transport, keep, R, repr(script), repr(spec))
            prev_tx = None
            for i, (t, tid, data, failed) in enumerate(obs.tx):
                try:
                    if transport == "udp":
                        op = rw.parse_rtu_request(data)
                        if op != want_op(spec, 0xF7):
                            acc.fail("C03|e2e|rtu|wrong-op", "peer received %s = %r" % (data.hex(), op), case)
                    elif transport == "tcp":
                        tx, op = rw.parse_tcp_request(data)
                        if op != want_op(spec, 0xF7):
                            acc.fail("C03|e2e|tcp|wrong-op", "peer received %s = %r" % (data.hex(), op), case)
                        if tx == 0 or tx == prev_tx:
                            acc.fail("C03|e2e|tcp|tx-id", "transmission %d carries transaction id %d (previous %r)" % (i, tx, prev_tx), case)
                        prev_tx = tx
                    else:
                        cmd, payload = rw.parse_aa55_request(data)
                        if (cmd + bytes((len(payload),)) + payload).hex() != spec[1]:
                            acc.fail("C03|e2e|aa55|wrong-content", "peer received %s" % data.hex(), case)
                except rw.ParseError as ex:
                    acc.fail("C03|e2e|%s|undecodable" % transport, "%s: %s" % (data.hex(), ex), case)
                if i and not netcase.same_request(transport, obs.tx[0][2], data):
                    acc.fail("C03|e2e|%s|retransmission-differs" % transport, "%s vs %s" % (obs.tx[0][2].hex(), data.hex()), case)
    return acc


def tcp_history_job(job):
    """Several requests on ONE Modbus/TCP protocol object while the peer answers, closes or resets the connection between
    and during them: every transmission must carry a non-zero transaction id different from the previous transmission's."""
    keep, variant = job
    acc = Acc()
    patterns = {
        0: [[["answer", 1]], [["combo", [["answer", 1], ["reset", 3, "ECONNRESET"]]]], [["answer", 1]], [["combo", [["answer", 1], ["reset", 2, "ECONNRESET"]]]], [["answer", 1]], [["answer", 1]]],
        1: [[["reset", 1, "ECONNRESET"], ["answer", 1]], [["answer", 1]], [["reset", 1, "ECONNRESET"], ["reset", 1, "ECONNRESET"], ["answer", 1]], [["answer", 1]]],
        2: [[["combo", [["answer", 1], ["eof", 2]]]], [["answer", 1]], [["eof", 1], ["answer", 1]], [["combo", [["answer", 1], ["reset", 2, "EPIPE"]]]], [["answer", 2]]],
        3: [[["senderr", "EPIPE"], ["answer", 1]], [["answer", 1]], [["drop"], ["answer", 1]], [["combo", [["answer", 1], ["reset", 1, "ECONNRESET"]]]], [["drop"], ["reset", 1, "ECONNRESET"], ["answer", 1]]],
    }[variant]
    for gap in ("idle", 0, 4):
        steps = []
        for script in patterns:
            steps.append({"op": "request", "script": script, "command": ("read", 35100, 2)})
            steps.append({"op": "idle"} if gap == "idle" else {"op": "sleep", "ticks": gap})
        case = {"e2e": True, "tcp_history": True, "keep": keep, "variant": variant, "gap": gap, "transport": "tcp"}
        acc.case()
        acc.nontrivial("tcp-history", keep, variant, gap)
        results, world, errors, protocol = netcase.run_sequence({"transport": "tcp", "keep": keep, "T": 1.0, "R": 3, "latency": 0, "steps": steps})
        prev = None
        for i, (t, tid, data, failed) in enumerate(world.tx):
            try:
                tx, op = rw.parse_tcp_request(data)
            except rw.ParseError as ex:
                acc.fail("C03|e2e|tcp|undecodable", "%s: %s" % (data.hex(), ex), case)
                break
            if tx == 0 or tx == prev:
                acc.fail("C03|e2e|tcp|tx-id", "transmission %d of the history carries transaction id %d, previous transmission %r" % (i, tx, prev), case)
                break
            prev = tx
    return acc


def concurrent_job(job):
    """Several tasks use ONE protocol object at the same time - with the same command object (the inverter classes keep
    pre-built shared commands) or with their own - while the peer answers late or drops transmissions.  The protocol
    serialises them; every transmission must still decode to an intended operation, and on Modbus/TCP carry a non-zero
    transaction id different from the previous transmission's."""
    import asyncio
    from vlib.vloop import ScriptedPeer, VLoop, World
    transport, keep, shared = job
    acc = Acc()
    specs = [("read", 35100, 2), ("read", 36000, 5), ("write", 47510, -1), ("read", 47000, 1)]
    for ntasks in (2, 3, 4):
        for offsets in ((0, 0, 0, 0), (0, 1, 2, 3), (0, 5, 5, 40)):
            for script in ([], [["drop"], ["answer", 2]], [["answer", 15], ["drop"], ["drop"], ["answer", 1]]):
                case = {"e2e": True, "concurrent": True, "transport": transport, "keep": keep, "shared": shared,
                        "ntasks": ntasks, "offsets": list(offsets), "script": script}
                acc.case()
                acc.nontrivial("concurrent", transport, keep, shared, ntasks, offsets, repr(script))
                peer = ScriptedPeer(netcase.make_responder(transport), netcase.to_actions(script, 1.0), default=("answer", 3 / 16.0))
                world = World(peer)
                loop = VLoop(world, max_time=1e5)
                protocol = netcase.make_protocol(transport, 1.0, 3, keep)
                common = netcase.make_command(transport, protocol, specs[0])
                wanted = []

                async def task(i):
                    await asyncio.sleep(offsets[i] / 16.0)
                    if shared == "same" or (shared == "mixed" and i % 2 == 0):
                        cmd, spec = common, specs[0]
                    else:
                        spec = specs[i % len(specs)]
                        cmd = netcase.make_command(transport, protocol, spec)
                    wanted.append(want_op(spec, 0xF7))
                    try:
                        await cmd.execute(protocol)
                    except Exception:
                        pass

                async def main():
                    await asyncio.gather(*[task(i) for i in range(ntasks)])

                out = loop.run(main())
                loop.idle()
                loop.shutdown()
                if out.hang or out.exc:
                    acc.fail("C03|e2e|concurrent|run-failed", "%r %r" % (out.hang, out.exc), case)
                    continue
                prev = None
                for i, (t, tid, data, failed) in enumerate(world.tx):
                    try:
                        if transport == "tcp":
                            tx, op = rw.parse_tcp_request(data)
                        else:
                            tx, op = None, rw.parse_rtu_request(data)
                    except rw.ParseError as ex:
                        acc.fail("C03|e2e|%s|undecodable" % transport, "%s: %s" % (data.hex(), ex), case)
                        break
                    if op not in wanted:
                        acc.fail("C03|e2e|%s|wrong-op" % transport, "peer received %s = %r" % (data.hex(), op), case)
                        break
                    if transport == "tcp" and (tx == 0 or tx == prev):
                        acc.fail("C03|e2e|tcp|tx-id", "transmission %d (of %d concurrent callers) carries transaction id %d, previous "
                                 "transmission %r" % (i, ntasks, tx, prev), case)
                        break
                    prev = tx
                else:
                    # every caller ends with the first valid in-time answer to ITS operation, so the peer can never have
                    # validly answered an operation more often than there are callers who wanted it: if it did, some
                    # transmission carried another caller's operation instead of the one its own caller intended
                    from collections import Counter
                    acts = netcase.to_actions(script, 1.0)
                    answered = Counter()
                    for i, (t, tid, data, failed) in enumerate(world.tx):
                        act = acts[i] if i < len(acts) else ("answer", 3 / 16.0)
                        if act[0] == "answer" and not failed:
                            answered[repr(sorted((rw.parse_tcp_request(data)[1] if transport == "tcp" else rw.parse_rtu_request(data)).items()))] += 1
                    need = Counter(repr(sorted(w.items())) for w in wanted)
                    for op, n in answered.items():
                        if n > need[op]:
                            acc.fail("C03|e2e|%s|concurrent|operation-sent-for-another-caller" % transport,
                                     "the peer validly answered %r %d times, only %d caller(s) asked for it: a transmission made for "
                                     "another caller carried this operation" % (op, n, need[op]), case)
                            break
    return acc


def run(ctx):
    ctx.shard(concurrent_job, [(t, k, sh) for t in ("tcp", "udp") for k in (False, True) for sh in ("same", "own", "mixed")],
              "concurrent callers on one protocol object (shared / own command objects)")
    ctx.shard(tcp_history_job, [(k, v) for k in (False, True) for v in range(4)],
              "Modbus/TCP transaction ids over request histories with peer resets / closes between and during requests")
    ctx.shard(job, [(t, k) for t in ("udp", "tcp", "aa55", "aa55tcp") for k in (False, True)],
              "end-to-end: transmissions and retransmissions parsed at the scripted peer")


def replay(ctx, case):
    if case.get("concurrent"):
        ctx.acc.merge(concurrent_job((case["transport"], case["keep"], case["shared"])))
        return
    if case.get("tcp_history"):
        ctx.acc.merge(tcp_history_job((case["keep"], case["variant"])))
        return
    ctx.acc.merge(job((case["transport"], case["keep"])))
