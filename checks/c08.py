"""C08 - Modbus exception answers surface at once as RequestRejectedException(reason)."""
from __future__ import annotations

from vlib import harness, netcase, refwire as rw
from vlib.harness import Acc

LEVEL = "exploration"
RULE = ("case = (transport in {RTU/UDP, Modbus/TCP}, keep-alive, command kind, exception code 0..255 (all), index of the "
        "transmission that gets the exception answer, answer delay, timeout/retries); all codes x kinds x transports x "
        "keep-alive x {first, last} transmission are enumerated, delays/indices/configurations sampled by Hypothesis; "
        "plus exception frames with a corrupted CRC (must not be a rejection). Non-trivial = code != 4 (the only code the "
        "test-suite touches) or the frame answers a retransmission; distinct by the whole tuple. Further dimensions: "
        "all 128 high-bit function codes (fcx), inconsistent MBAP headers, what earlier transmissions received, bare protocol vs. inverter object (api).")
ASSUMPTIONS = [
    "reference reasons: codes 1-3 verbatim from the property, 4-8/10/11 from the Modbus application protocol after "
    "normalising SLAVE=SERVER and ACKNOWLEDGEMENT=ACKNOWLEDGE, every other code 'UNKNOWN'",
    "exception frame = any function code with the high bit set (the request's own | 0x80 in the main sweep, all 128 in the "
    "'fcx' sweep), one code byte, valid CRC (RTU)",
    "virtual-clock loop / in-memory transports (vlib/vloop.py)",
]
EPS = 1e-9
COMMANDS = {"read": ("read", 35100, 8), "write": ("write", 47510, -7), "write_multi": ("write_multi", 47547, bytes(range(12)))}
# what earlier transmissions of the same request may have received before the exception frame answers a retransmission:
# nothing, garbage, a frame with a bad checksum, or only the first fragment of a read answer - cut so that the number of
# missing bytes equals the length of an exception frame (7 on RTU, 9 on Modbus/TCP), the worst case for reassembly
PRE = {"drop": ["drop"], "garbage": ["garbage", 2], "bad": ["bad", 2], "lone-missing-7": ["lone", 16, 2], "lone-missing-9": ["lone", 16, 2],
       "lone-missing-5": ["lone", 18, 2]}
VERBATIM = {1: "ILLEGAL FUNCTION", 2: "ILLEGAL DATA ADDRESS", 3: "ILLEGAL DATA VALUE"}


def expected_reason(code):
    if code in VERBATIM:
        return VERBATIM[code], True
    if code in rw.MODBUS_EXCEPTION_NAMES:
        return rw.MODBUS_EXCEPTION_NAMES[code], False
    return "UNKNOWN", True


def check_case(acc: Acc, case):
    acc.case()
    transport, T, R = case["transport"], case["T"], case["R"]
    idx, d, code, kind = case["idx"], case["delay"], case["code"], case["kind"]
    corrupt = case.get("corrupt", False)
    if code != 4 or idx > 0 or corrupt or case.get("fcx") is not None:
        acc.nontrivial(transport, case["keep"], T, R, idx, d, code, kind, corrupt, case.get("pre", "drop"), repr(case.get("mbap")), case.get("fcx"), case.get("api", False), repr(case.get("same_tx_fragment")))
    pre = case.get("pre", "drop")
    if pre.startswith("lone") and kind != "read":
        pre = "drop"
    script = [list(PRE[pre])] * idx
    if corrupt:
        frame = rw.rtu_exception_response(0xF7, {"read": 3, "write": 6, "write_multi": 16}[kind], code)
        frame = frame[:-1] + bytes((frame[-1] ^ 0x40,))
        script = script + [["raw", d, frame]]
    elif case.get("same_tx_fragment") is not None and transport == "udp" and kind == "read":
        # the answered transmission first receives a lone first fragment of a read answer (cut so that `missing` bytes are
        # outstanding) and THEN the exception frame: the exception frame is no remainder, it must surface at once
        cut, d0 = case["same_tx_fragment"]
        script = script + [["combo", [["lone", cut, d0], ["exc", d, code]]]]
    elif case.get("fcx") is not None:
        # the property speaks of any frame whose function code has the high bit set (valid checksum), not only request|0x80
        fcx = case["fcx"]
        frame = rw.rtu_exception_response(0xF7, fcx & 0x7F, code) if transport == "udp" else rw.tcp_exception_response(0x0102, 0xF7, fcx & 0x7F, code)
        assert frame[3 if transport == "udp" else 7] == fcx
        script = script + [["raw", d, frame]]
    elif case.get("mbap") is not None and transport == "tcp":
        # GoodWe firmware is known to send inconsistent MBAP headers (e.g. it echoes the request's header, length 6, in front
        # of a 3 byte exception PDU); the library documents that it ignores the MBAP length - exception frames included
        fc = {"read": 3, "write": 6, "write_multi": 16}[kind]
        frame = bytearray(rw.tcp_exception_response(0x0102, 0xF7, fc, code))
        ln, proto = case["mbap"]
        frame[4:6] = ln.to_bytes(2, "big")
        frame[2:4] = proto.to_bytes(2, "big")
        script = script + [["raw", d, bytes(frame)]]
    else:
        script = script + [["exc", d, code]]
    c = {"transport": transport, "keep": case["keep"], "T": T, "R": R, "script": script, "latency": case.get("latency", 0), "api": case.get("api", False)}
    obs = netcase.run_single(c, command=COMMANDS[kind])
    out = obs.outcome
    fails = []
    cfg = "%s|%s" % (transport, kind)
    if out.hang is not None:
        return [("C08|%s|hang" % cfg, str(out.hang), case)]
    t_deliver = (obs.tx[idx][0] if len(obs.tx) > idx else idx * T) + netcase.secs(d, T)
    if corrupt:
        if out.kind() == "RequestRejectedException":
            fails.append(("C08|%s|bad-crc-exception-rejected" % cfg,
                          "exception frame with a wrong CRC was taken as a rejection (%r)" % (out.exc.message,), case))
        return fails
    if out.kind() != "RequestRejectedException":
        fails.append(("C08|%s|not-rejected" % cfg, "exception code %d answered transmission %d: outcome %s after %d transmissions" % (
            code, idx, out.kind(), len(obs.tx)), case))
        return fails
    msg = getattr(out.exc, "message", None)
    want, verbatim = expected_reason(code)
    ok = (msg == want) if verbatim else (isinstance(msg, str) and rw.normalise_reason(msg) == rw.normalise_reason(want))
    if not ok:
        fails.append(("C08|reason|code-%s" % (code if code in rw.MODBUS_EXCEPTION_NAMES else "undefined"),
                      "exception code %d gave message %r, expected %r" % (code, msg, want), case))
    if abs(obs.t_end - t_deliver) > EPS:
        fails.append(("C08|%s|not-immediate" % cfg, "rejection surfaced at %r, exception frame delivered at %r" % (obs.t_end, t_deliver), case))
    if len(obs.tx) != idx + 1:
        fails.append(("C08|%s|transmissions" % cfg, "%d transmissions, expected %d" % (len(obs.tx), idx + 1), case))
    if len(obs.world.tx) != idx + 1:
        fails.append(("C08|%s|retransmitted-after-rejection" % cfg, "%d transmissions in total after the loop went idle" % len(obs.world.tx), case))
    return fails


def _apply(acc, case):
    for key, msg, c in check_case(acc, case):
        acc.fail(key, msg, c)


def enum_job(job):
    transport, keep, kind, T, R, idxs, delays = job
    acc = Acc()
    for code in range(256):
        for idx in idxs:
            for d in delays:
                case = {"transport": transport, "keep": keep, "kind": kind, "T": T, "R": R, "idx": idx, "delay": d, "code": code}
                _apply(acc, case)
                if code < 16 or code % 16 == 0:
                    _apply(acc, dict(case, api=True))   # through an inverter object
                if code == 2 and idx and len(acc.samples) < 1:
                    acc.sample(case)
    for fcx in range(0x80, 0x100):   # every function code with the high bit set, also ones that do not mirror the request's
        for code in ((2,) if fcx % 8 else (1, 2, 3, 11, 200)):
            for idx in idxs:
                _apply(acc, {"transport": transport, "keep": keep, "kind": kind, "T": T, "R": R, "idx": idx, "delay": delays[0],
                             "code": code, "fcx": fcx})
    if transport == "tcp":   # inconsistent MBAP headers in front of the exception PDU
        for mbap in ((6, 0), (0, 0), (0xFFFF, 0), (2, 0), (3, 1), (256, 0xFFFF)):
            for code in (1, 2, 3, 6, 11, 200):
                for idx in idxs:
                    _apply(acc, {"transport": transport, "keep": keep, "kind": kind, "T": T, "R": R, "idx": idx, "delay": delays[0],
                                 "code": code, "mbap": list(mbap)})
    for pre in PRE:   # earlier transmissions received something else than silence
        if pre == "drop" or (transport == "tcp" and pre in ("garbage", "bad")) or (kind != "read" and pre.startswith("lone")):
            continue      # fragments exist for read answers only      # (an invalid answer on Modbus/TCP ends the request at once - D9 - so nothing is retransmitted)
        for code in (1, 2, 3, 6, 11, 200):
            for idx in (i for i in idxs if i > 0):
                _apply(acc, {"transport": transport, "keep": keep, "kind": kind, "T": T, "R": R, "idx": idx, "delay": delays[0],
                             "code": code, "pre": pre})
    if transport == "udp":
        for code in (1, 2, 3, 4, 11, 200):
            for idx in idxs:
                case = {"transport": transport, "keep": keep, "kind": kind, "T": T, "R": R, "idx": idx, "delay": delays[0],
                        "code": code, "corrupt": True}
                _apply(acc, case)
        if kind == "read":      # read of 8 registers: 23-byte answer; cuts leave 18, 14, 9, 7 (= an exception frame), 5, 2 bytes missing
            for cut in (5, 9, 14, 16, 18, 21):
                for code in (1, 2, 3, 6, 200):
                    for idx in idxs:
                        for (d0, d1) in ((1, 3), (2, 2), (0, 12)):
                            _apply(acc, {"transport": transport, "keep": keep, "kind": kind, "T": T, "R": R, "idx": idx, "delay": d1,
                                         "code": code, "same_tx_fragment": [cut, d0]})
    return acc


def table_checks(acc: Acc):
    """Injectivity on the defined codes and the exact text the inverter classes compare with."""
    from goodwe.modbus import FAILURE_CODES, ILLEGAL_DATA_ADDRESS
    acc.case()
    seen = {}
    for code in sorted(rw.MODBUS_EXCEPTION_NAMES):
        text = FAILURE_CODES.get(code)
        if text in seen:
            acc.fail("C08|reason|not-injective", "codes %d and %d share the reason %r" % (seen[text], code, text), {"table": True})
        seen[text] = code
    if ILLEGAL_DATA_ADDRESS != "ILLEGAL DATA ADDRESS":
        acc.fail("C08|reason|illegal-data-address-constant", "ILLEGAL_DATA_ADDRESS == %r" % ILLEGAL_DATA_ADDRESS, {"table": True})
    for code, text in FAILURE_CODES.items():
        if text == ILLEGAL_DATA_ADDRESS and code != 2:
            acc.fail("C08|reason|illegal-data-address-ambiguous", "code %d also maps to ILLEGAL DATA ADDRESS" % code, {"table": True})


def hyp_job(job):
    seed, n = job
    from hypothesis import strategies as st
    acc = Acc()

    @st.composite
    def cases(draw):
        R = draw(st.integers(0, 5))
        return {"transport": draw(st.sampled_from(("udp", "tcp"))), "keep": draw(st.booleans()),
                "kind": draw(st.sampled_from(("read", "write", "write_multi"))),
                "T": draw(st.sampled_from((0.5, 1.0, 2.0, 4.0))), "R": R, "idx": draw(st.integers(0, R)),
                "delay": draw(st.integers(0, 15)), "code": draw(st.integers(0, 255)), "latency": draw(st.integers(0, 3)),
                "pre": draw(st.sampled_from(("drop", "drop", "lone-missing-7", "lone-missing-9", "lone-missing-5"))),
                "fcx": draw(st.one_of(st.none(), st.none(), st.integers(0x80, 0xFF))), "api": draw(st.booleans()),
                "same_tx_fragment": draw(st.one_of(st.none(), st.none(), st.none(), st.tuples(st.integers(5, 22), st.integers(0, 8)).map(list))),
                "mbap": draw(st.one_of(st.none(), st.none(), st.tuples(st.integers(0, 0xFFFF), st.sampled_from((0, 0, 1, 0xFFFF))).map(list)))}

    def body(case):
        if len(acc.samples) < 3:
            acc.sample(case)
        return check_case(acc, case)

    harness.hyp_search(acc, body, [cases()], seed=seed, max_examples=n)
    return acc


# ---------------------------------------------------------------------------------------------
# inverter classes: only the exact reason ILLEGAL DATA ADDRESS means "this register block is not supported"
# ---------------------------------------------------------------------------------------------
class _ExcAt:
    """Responder wrapper: the k-th request after arming is answered with a Modbus exception frame of the given code."""

    def __init__(self, inner, k, code):
        self.inner, self.k, self.code, self.n = inner, k, code, None

    def respond(self, data):
        if self.n is not None:
            self.n += 1
            if self.n - 1 == self.k:
                return self.inner.exception(data, self.code)
        return self.inner.respond(data)

    def __getattr__(self, name):
        return getattr(self.inner, name)


API_CFGS = [
    {"family": "ET", "serial": b"925KETT000W00001", "rated_power": 25000, "refuse": [], "battery_mode": 1, "tcp": False},
    {"family": "ET", "serial": b"9010KETU000W0000", "rated_power": 30000, "refuse": [], "battery_mode": 1, "tcp": True},
    {"family": "ET", "serial": b"9010KETU000W0000", "rated_power": 10000, "refuse": [], "battery_mode": 1, "tcp": False},
    {"family": "ET", "serial": b"929K9ETT00W00001", "rated_power": 29900, "refuse": ["meter_ext2"], "battery_mode": 1, "tcp": True},
    {"family": "ET", "serial": b"95000EHU000W0001", "rated_power": 15000, "refuse": ["meter_ext", "battery2"], "battery_mode": 2, "tcp": False},
]
# DT is not part of this sweep: DT.read_runtime_data() gives up its optional meter block after ANY failure of that read (it
# does not look at the reason at all), so "only ILLEGAL DATA ADDRESS disables a block" is an ET statement (DESIGN.md D14).


def api_case(acc: Acc, case):
    """Request k of a read_runtime_data() poll is answered with exception code c != 2: the call must fail with
    RequestRejectedException(reason(c)) - it must not be taken for 'block not supported' - and the following clean poll
    must report exactly the keys a poll reported before the incident."""
    from goodwe.exceptions import RequestRejectedException
    from vlib import siminv
    from vlib.harness import run_sync
    acc.case()
    cfg, k, code = case["cfg"], case["k"], case["code"]
    acc.nontrivial("api", repr(sorted(cfg.items())), k, code)
    inv, sim = siminv.build_direct(dict(cfg), default=lambda a: (a * 13 + 5) & 0x7FFF)
    if cfg["family"] == "ET":
        sim.set(35184, cfg.get("battery_mode", 1))
    fault = _ExcAt(siminv.responder_for(inv, sim), k, code)
    siminv.attach_direct(inv, fault)
    run_sync(inv.read_device_info())
    from goodwe.exceptions import InverterError
    before = None
    for _ in range(3):     # settles the ILLEGAL DATA ADDRESS fallbacks of this configuration (the double meter fallback fails one poll)
        try:
            before = set(run_sync(inv.read_runtime_data()))
        except InverterError:
            pass
    if before is None:
        # blocks refused with exception code 2 (ILLEGAL DATA ADDRESS) must be recognised as unsupported: the fallbacks settle
        # within two polls on a correct library
        return [("C08|api|%s|illegal-data-address-not-recognised" % cfg["family"], "the inverter refuses %s with exception code 2, yet three "
                 "polls in a row fail: the 'ILLEGAL DATA ADDRESS' refusal is not recognised as 'block not supported'" % (cfg.get("refuse"),), case)]
    fault.n = 0
    want, verbatim = expected_reason(code)
    fam = cfg["family"]
    try:
        run_sync(inv.read_runtime_data())
    except RequestRejectedException as ex:
        ok = (ex.message == want) if verbatim else rw.normalise_reason(str(ex.message)) == rw.normalise_reason(want)
        if not ok:
            return [("C08|api|%s|reason" % fam, "poll request %d answered with code %d: message %r, expected %r" % (k, code, ex.message, want), case)]
    except Exception as ex:
        return [("C08|api|%s|other-exception|%s" % (fam, type(ex).__name__), "poll request %d answered with code %d: %r" % (k, code, ex), case)]
    else:
        if fault.n > k:     # the exception frame was really sent
            return [("C08|api|%s|exception-swallowed" % fam, "poll request %d was answered with exception code %d (%s) but read_runtime_data() "
                     "returned normally" % (k, code, want), case)]
        return []
    fault.n = None
    after = set(run_sync(inv.read_runtime_data()))
    if after != before:
        return [("C08|api|%s|capability-changed" % fam, "after a poll whose request %d was rejected with code %d (%s) the inverter object reports "
                 "other keys: lost %s, new %s" % (k, code, want, sorted(before - after)[:4], sorted(after - before)[:4]), case)]
    return []


def api_job(job):
    part, parts = job
    acc = Acc()
    i = 0
    for cfg in API_CFGS:
        for k in range(0, 7):
            for code in (1, 3, 4, 5, 6, 7, 8, 10, 11, 0, 200):
                i += 1
                if i % parts != part:
                    continue
                case = {"api_poll": True, "cfg": cfg, "k": k, "code": code}
                for key, msg, c in api_case(acc, case):
                    acc.fail(key, msg, c)
                if len(acc.samples) < 1:
                    acc.sample(case)
    return acc


def check_queued(acc: Acc, case):
    """Other callers are already waiting for the same protocol object when the exception frame arrives (they are not
    answered at all): the rejection surfaces at the moment the frame is received, not after the queued requests."""
    import asyncio
    from vlib.vloop import ScriptedPeer, VLoop, World
    acc.case()
    transport, T, R, code, d, kind = case["transport"], case["T"], case["R"], case["code"], case["delay"], case["kind"]
    acc.nontrivial("queued", transport, case["keep"], T, R, code, d, kind, tuple(case["others"]))
    peer = ScriptedPeer(netcase.make_responder(transport), netcase.to_actions([["exc", d, code]], T), default=("drop",))
    world = World(peer)
    loop = VLoop(world, max_time=1e5)
    protocol = netcase.make_protocol(transport, T, R, case["keep"])
    out = {}

    async def first():
        try:
            await netcase.make_command(transport, protocol, COMMANDS[kind]).execute(protocol)
            out["first"] = ("ok", None, loop.vtime)
        except Exception as ex:
            out["first"] = (type(ex).__name__, getattr(ex, "message", None), loop.vtime)

    async def other(i, ticks):
        await asyncio.sleep(netcase.secs(ticks, T) + 1e-6)
        try:
            await netcase.make_command(transport, protocol, ("read", 36000 + i, 3)).execute(protocol)
        except Exception:
            pass

    async def main():
        await asyncio.gather(first(), *[other(i, t) for i, t in enumerate(case["others"])])

    res = loop.run(main())
    loop.idle()
    loop.shutdown()
    if res.hang or res.exc:
        return [("C08|%s|queued|hang" % transport, "%r %r" % (res.hang, res.exc), case)]
    k, msg, t_end = out.get("first", ("missing", None, 0))
    want, _ = expected_reason(code)
    at = netcase.secs(d, T)
    if k != "RequestRejectedException":
        return [("C08|%s|queued|not-rejected" % transport, "exception code %d with callers queued at +%s ticks: outcome %s" % (code, case["others"], k), case)]
    fails = []
    mine = [e for e in world.tx if netcase.same_request(transport, world.tx[0][2], e[2])]
    if len(mine) != 1:
        fails.append(("C08|%s|queued|retransmitted" % transport, "%d transmissions of the rejected request" % len(mine), case))
    if transport == "tcp" and not case["keep"]:
        # D18: with keep-alive off the request ends by closing its connection, which Modbus/TCP serialises with the queued
        # callers (every outcome, successes too, returns after them) - not a wait for this request's own timeout
        acc.cls("queued|tcp-no-keepalive|close-serialised-with-queue")
    elif t_end > at + EPS:
        fails.append(("C08|%s|queued|rejection-delayed" % transport, "exception frame received at +%r s, the rejection surfaced at +%r s "
                      "(other callers queued at +%s ticks, none of them answered)" % (at, t_end, case["others"]), case))
    if msg != want and (code in VERBATIM or code not in rw.MODBUS_EXCEPTION_NAMES):
        fails.append(("C08|%s|queued|reason" % transport, "code %d: message %r, expected %r" % (code, msg, want), case))
    return fails


def queued_job(job):
    transport, keep = job
    acc = Acc()
    for kind in COMMANDS:
        for code in (1, 2, 3, 4, 11, 0x55):
            for d in (1, 4, 15):
                for others in ((0,), (d,), (0, 0), (2, 9)):
                    for R in (0, 2):
                        case = {"queued": True, "transport": transport, "keep": keep, "T": 1.0, "R": R, "code": code, "delay": d, "kind": kind, "others": list(others)}
                        for key, msg, c in check_queued(acc, case):
                            acc.fail(key, msg, c)
    acc.sample(case)
    return acc


def run(ctx):
    from vlib import concur
    concur.register(ctx, "C08")
    ctx.shard(queued_job, [(t, k) for t in ("udp", "tcp") for k in (False, True)], "exception frame arrives while other callers are queued on the same protocol object")
    ctx.shard(api_job, [(p, 16) for p in range(16)], "inverter classes: request k of a poll answered with exception code != 2 (must surface, must not disable a block)")
    table_checks(ctx.acc)
    jobs = []
    for transport in ("udp", "tcp"):
        for keep in (False, True):
            for kind in COMMANDS:
                if ctx.quick:
                    jobs.append((transport, keep, kind, 1.0, 2, (0, 2), (3,)))
                else:
                    jobs.append((transport, keep, kind, 1.0, 2, (0, 1, 2), (0, 3, 15)))
                    jobs.append((transport, keep, kind, 0.5, 4, (0, 4), (7,)))
    ctx.shard(enum_job, jobs, "all 256 exception codes x command kinds x transports x keep-alive x transmission index")
    ctx.exhaustive_parts.append("exception codes 0..255 for every (transport, keep-alive, command kind, answered transmission in {first,last})")
    n = ctx.pick(1600, 30000)
    ctx.shard(hyp_job, [(ctx.seed * 1000 + i, n // 16) for i in range(16)], "hypothesis: free delays, indices, configurations")


def replay(ctx, case):
    if isinstance(case, dict) and case.get("overlap") and "callers" in case:
        from vlib import concur
        concur.replay(ctx.acc, case, concur.INVARIANTS["C08"], "C08")
        return
    if case.get("queued"):
        for key, msg, c in check_queued(ctx.acc, case):
            ctx.acc.fail(key, msg, c)
        return
    if case.get("api_poll"):
        for key, msg, c in api_case(ctx.acc, case):
            ctx.acc.fail(key, msg, c)
        return
    if case.get("table"):
        table_checks(ctx.acc)
    else:
        _apply(ctx.acc, case)
