"""C03 - requests on the wire are canonical, decodable frames carrying the arguments.

Oracle: the strict reference decoder of vlib/refwire.py (written from the protocol descriptions) must parse
every request the library builds back to exactly the intended operation.
"""
from __future__ import annotations

from vlib import harness, refwire as rw
from vlib.harness import Acc

LEVEL = "exploration"
RULE = ("cases = (framing, command kind, comm address, register, count/value/payload) built through the public "
        "command constructors and decoded by the independent strict parser; each 16-bit argument is swept "
        "exhaustively with the other arguments at boundary values, the joint space is sampled by Hypothesis, "
        "Modbus/TCP transaction ids are followed over a history that wraps twice, ES vendor commands and "
        "end-to-end transmissions (incl. retransmissions) are parsed at the peer. "
        "Non-trivial = value < 0, or register/count with the high bit set, or payload >= 128 bytes, or history "
        "position within +-2 of a transaction-id wrap, or a retransmission; distinct by (framing, kind, arguments).")
ASSUMPTIONS = [
    "reference decoder (vlib/refwire.py) is the specification of the three framings; CRC self-checked against 0x4B37",
    "AA55 0x011A/0x0239 payload layout (register, count/length byte, data) is vendor defined; only header, length "
    "byte, checksum and the position of register/value bytes are checked",
    "argument domain as stated by the property: address 0..255, register 0..65535, count 1..125, value -32768..32767, "
    "even payloads 2..246 bytes (AA55 multi: 8 bytes)",
]

BOUND16 = (0, 1, 0x7F, 0x80, 0xFF, 0x100, 0x7FFF, 0x8000, 0xFFFE, 0xFFFF)
ADDRS = (0, 1, 0x7F, 0xF7, 0xFF)


def _protocols():
    from goodwe.protocol import UdpInverterProtocol, TcpInverterProtocol
    return {"rtu": UdpInverterProtocol, "tcp": TcpInverterProtocol}


def _decode(framing, frame):
    if framing == "rtu":
        return None, rw.parse_rtu_request(frame)
    tx, op = rw.parse_tcp_request(frame)
    return tx, op


def check_modbus(acc: Acc, framing, kind, addr, reg, arg, *, nontrivial_counted=False):
    """Build the command through the protocol factory and compare with the reference decode.
    arg = count | value | payload bytes."""
    acc.case()
    case = {"framing": framing, "kind": kind, "addr": addr, "reg": reg, "arg": arg}
    nt = (isinstance(arg, int) and (arg < 0 or arg & 0x8000)) or reg & 0x8000 or (
        isinstance(arg, (bytes, bytearray)) and len(arg) >= 128)
    if nt:
        if nontrivial_counted:
            acc.nontrivial_counted()
        else:
            acc.nontrivial(framing, kind, addr, reg, arg)
    try:
        proto = _protocols()[framing]("127.0.0.1", 8899 if framing == "rtu" else 502, addr, 1, 0)
        if kind == "read":
            cmd = proto.read_command(reg, arg)
            want = rw.op_read(addr, reg, arg)
        elif kind == "write":
            cmd = proto.write_command(reg, arg)
            want = rw.op_write(addr, reg, arg)
        else:
            cmd = proto.write_multi_command(reg, arg)
            want = rw.op_write_multi(addr, reg, arg)
        frame = cmd.request_bytes()
    except Exception as ex:  # constructing a request for in-domain arguments must not fail
        return acc.fail("C03|%s|%s|exception|%s" % (framing, kind, type(ex).__name__),
                        "building the request raised %r" % (ex,), case)
    try:
        tx, got = _decode(framing, frame)
    except rw.ParseError as ex:
        return acc.fail("C03|%s|%s|undecodable" % (framing, kind), "%s: %s" % (frame.hex(), ex), case)
    if got != want:
        diff = [k for k in want if got.get(k) != want[k]] or ["kind"]
        return acc.fail("C03|%s|%s|wrong-%s" % (framing, kind, diff[0]),
                        "frame %s decodes to %r, intended %r" % (frame.hex(), got, want), case)
    if framing == "tcp" and tx == 0:
        return acc.fail("C03|tcp|tx-zero", "transaction id 0 in %s" % frame.hex(), case)
    if cmd.request != frame:
        return acc.fail("C03|%s|%s|request-attr" % (framing, kind), "command.request differs from request_bytes()", case)
    return False


def check_aa55(acc: Acc, kind, reg, arg, *, nontrivial_counted=False):
    from goodwe.protocol import Aa55ReadCommand, Aa55WriteCommand, Aa55WriteMultiCommand
    acc.case()
    case = {"framing": "aa55", "kind": kind, "reg": reg, "arg": arg}
    nt = (isinstance(arg, int) and (arg < 0 or arg & 0x8000)) or reg & 0x8000
    if nt:
        if nontrivial_counted:
            acc.nontrivial_counted()
        else:
            acc.nontrivial("aa55", kind, reg, arg)
    try:
        if kind == "read":
            cmd = Aa55ReadCommand(reg, arg)
            want_cmd, want_payload = b"\x01\x1a", rw.u16(reg) + bytes((arg,))
        elif kind == "write":
            cmd = Aa55WriteCommand(reg, arg)
            want_cmd, want_payload = b"\x02\x39", rw.u16(reg) + b"\x01" + rw.u16(arg)
        else:
            cmd = Aa55WriteMultiCommand(reg, arg)
            want_cmd, want_payload = b"\x02\x39", rw.u16(reg) + bytes((len(arg),)) + bytes(arg)
        frame = cmd.request_bytes()
    except Exception as ex:
        return acc.fail("C03|aa55|%s|exception|%s" % (kind, type(ex).__name__),
                        "building the request raised %r" % (ex,), case)
    try:
        got_cmd, got_payload = rw.parse_aa55_request(frame)
    except rw.ParseError as ex:
        return acc.fail("C03|aa55|%s|undecodable" % kind, "%s: %s" % (frame.hex(), ex), case)
    if (got_cmd, got_payload) != (want_cmd, want_payload):
        return acc.fail("C03|aa55|%s|wrong-content" % kind,
                        "frame %s carries %s/%s, intended %s/%s" % (frame.hex(), got_cmd.hex(), got_payload.hex(),
                                                                     want_cmd.hex(), want_payload.hex()), case)
    return False


# ---------------------------------------------------------------------------------------------
# sharded exhaustive sweeps
# ---------------------------------------------------------------------------------------------
def _payload(n, fill):
    if fill == "inc":
        return bytes((i * 7 + 3) & 0xFF for i in range(n))
    return bytes([fill]) * n


def sweep_job(job):
    what, framing, kind, lo, hi = job
    acc = Acc()
    if framing == "aa55":
        if what == "reg":
            args = {"read": (1, 125), "write": (0, 1, -1, -32768, 32767), "write_multi": (_payload(8, "inc"),)}[kind]
            for reg in range(lo, hi):
                for a in args:
                    check_aa55(acc, kind, reg, a, nontrivial_counted=True)
        elif what == "value":
            for v in range(lo, hi):
                for reg in (0, 0x560, 0x701, 0xFFFF):
                    check_aa55(acc, "write", reg, v, nontrivial_counted=True)
        return acc
    if what == "reg":
        args = {"read": (1, 125), "write": (0, -1, 32767), "write_multi": (_payload(2, 0xFF), _payload(12, "inc"))}[kind]
        for reg in range(lo, hi):
            for a in args:
                check_modbus(acc, framing, kind, ADDRS[reg % len(ADDRS)], reg, a, nontrivial_counted=True)
    elif what == "value":
        for v in range(lo, hi):
            for reg in (0, 47510, 0xFFFF):
                check_modbus(acc, framing, "write", 0xF7, reg, v, nontrivial_counted=True)
    elif what == "addr_count":
        for addr in range(lo, hi):
            for count in range(1, 126):
                check_modbus(acc, framing, "read", addr, BOUND16[(addr + count) % len(BOUND16)], count,
                             nontrivial_counted=True)
    elif what == "multi_len":
        for n in range(lo, hi, 2):
            for fill in (0, 0xFF, 0x80, "inc"):
                for reg in (0, 47547, 0xFFFF):
                    check_modbus(acc, framing, "write_multi", 0xF7 if fill else 0x7F, reg, _payload(n, fill),
                                 nontrivial_counted=True)
    return acc


def _ranges(lo, hi, parts):
    step = (hi - lo + parts - 1) // parts
    return [(a, min(hi, a + step)) for a in range(lo, hi, step)]


# ---------------------------------------------------------------------------------------------
# transaction id history
# ---------------------------------------------------------------------------------------------
def tx_history(acc: Acc, steps: int, seed: int):
    """Interleave request_bytes() over several Modbus/TCP command objects for `steps` transmissions."""
    from goodwe.protocol import TcpInverterProtocol
    proto = TcpInverterProtocol("127.0.0.1", 502, 0xF7, 1, 0)
    cmds = [(proto.read_command(35100, 125), rw.op_read(0xF7, 35100, 125)),
            (proto.write_command(47510, -2), rw.op_write(0xF7, 47510, -2)),
            (proto.write_multi_command(47547, bytes(range(12))), rw.op_write_multi(0xF7, 47547, bytes(range(12)))),
            (proto.read_command(0, 1), rw.op_read(0xF7, 0, 1))]
    prev = None
    x = seed & 0x7FFFFFFF or 1
    wraps = 0
    window = []
    for i in range(steps):
        x = (x * 1103515245 + 12345) & 0x7FFFFFFF  # derived from VERIF_SEED only; no RNG module
        cmd, want = cmds[(x >> 16) % len(cmds)]
        frame = cmd.request_bytes()
        acc.case()
        case = {"history_step": i, "steps": steps, "seed": seed}
        try:
            tx, got = rw.parse_tcp_request(frame)
        except rw.ParseError as ex:
            acc.fail("C03|tcp|history|undecodable", "step %d: %s: %s" % (i, frame.hex(), ex), case)
            return
        if got != want:
            acc.fail("C03|tcp|history|wrong-op", "step %d: %r != %r" % (i, got, want), case)
            return
        if tx == 0:
            acc.fail("C03|tcp|tx-zero", "step %d: transaction id 0" % i, case)
            return
        if prev is not None and tx == prev:
            acc.fail("C03|tcp|tx-repeated", "step %d: transaction id %d equals the previous one" % (i, tx), case)
            return
        if prev is not None and tx < prev:
            wraps += 1
            for j in window[-2:]:
                acc.nontrivial("txwrap", j)
            acc.nontrivial("txwrap", i)
            near = 2
        elif prev is not None and 'near' in locals() and near > 0:
            acc.nontrivial("txwrap", i)
            near -= 1
        window.append(i)
        if len(window) > 4:
            window.pop(0)
        prev = tx
    acc.cls("tx_wraps_crossed", wraps)
    acc.sample({"tx_history_steps": steps, "wraps": wraps, "last_frame": frame.hex()})
    if steps > 66000 and wraps < 1:
        acc.fail("C03|tcp|tx-never-wraps", "no wrap in %d transmissions" % steps, {"steps": steps, "seed": seed})


# ---------------------------------------------------------------------------------------------
# ES vendor commands (built with f-strings in es.py) and the fixed commands
# ---------------------------------------------------------------------------------------------
def es_vendor_commands(acc: Acc):
    import goodwe
    from goodwe.es import ES
    from goodwe.inverter import OperationMode
    from datetime import datetime
    sent = []

    def mk(arm, fw_v2):
        inv = ES("127.0.0.1", 8899)
        inv.arm_version = arm
        inv.serial_number = "95048ESU000W0000"
        inv.dsp1_version = 22 if fw_v2 else 1

        async def fake(command):
            sent.append(command)
            from goodwe.protocol import ProtocolResponse
            # answer for reads of eco_mode_1 (8 or 12 bytes of an "off" group) - content irrelevant here
            return ProtocolResponse(bytes(7) + bytes.fromhex("300030000064000000640000") + bytes(2), command)
        inv._read_from_socket = fake
        return inv

    def drain(label, case):
        for c in sent:
            acc.case()
            frame = c.request_bytes()
            try:
                if frame[:2] == b"\xaa\x55":
                    rw.parse_aa55_request(frame)
                else:
                    rw.parse_rtu_request(frame)
            except rw.ParseError as ex:
                acc.fail("C03|es-vendor|%s|undecodable" % label, "%s: %s" % (frame.hex(), ex), case)
        sent.clear()

    checks = 0
    for frame_cmd, name in ((goodwe.DISCOVERY_COMMAND, "discovery"), (ES._READ_DEVICE_VERSION_INFO, "info"),
                            (ES._READ_DEVICE_RUNNING_DATA, "runtime"), (ES._READ_DEVICE_SETTINGS_DATA, "settings")):
        sent.append(frame_cmd)
        drain(name, {"fixed": name})
    for arm in (0, 7, 14):
        for v2 in (False, True):
            for mode in (OperationMode.GENERAL, OperationMode.OFF_GRID, OperationMode.BACKUP, OperationMode.ECO,
                         OperationMode.ECO_CHARGE, OperationMode.ECO_DISCHARGE):
                inv = mk(arm, v2)
                case = {"es": "set_operation_mode", "arm": arm, "v2": v2, "mode": int(mode)}
                try:
                    harness.run_sync(inv.set_operation_mode(mode, 37, 81))
                except Exception as ex:
                    acc.fail("C03|es-vendor|set_operation_mode|exception|%s" % type(ex).__name__, repr(ex), case)
                drain("set_operation_mode", case)
                checks += 1
    inv = mk(14, False)
    for limit in list(range(0, 65536, 257)) + [1, 255, 256, 32767, 32768, 65535]:
        case = {"es": "set_grid_export_limit", "limit": limit}
        try:
            harness.run_sync(inv.set_grid_export_limit(limit))
        except Exception as ex:
            acc.fail("C03|es-vendor|set_grid_export_limit|exception|%s" % type(ex).__name__, repr(ex), case)
        if sent:
            frame = sent[0].request_bytes()
            try:
                cmd, payload = rw.parse_aa55_request(frame)
                if payload != rw.u16(limit):
                    acc.fail("C03|es-vendor|set_grid_export_limit|wrong-value", "%s for %d" % (frame.hex(), limit), case)
            except rw.ParseError:
                pass
        if limit & 0x8000:
            acc.nontrivial("es-export", limit)
        drain("set_grid_export_limit", case)
    for dod in range(0, 101):
        case = {"es": "set_ongrid_battery_dod", "dod": dod}
        try:
            harness.run_sync(inv.set_ongrid_battery_dod(dod))
        except Exception as ex:
            acc.fail("C03|es-vendor|set_ongrid_battery_dod|exception|%s" % type(ex).__name__, repr(ex), case)
        drain("set_ongrid_battery_dod", case)
    for ts in (datetime(2000, 1, 1, 0, 0, 0), datetime(2024, 2, 29, 23, 59, 59), datetime(2255, 12, 31, 12, 0, 1)):
        case = {"es": "write_setting_time", "ts": ts.isoformat()}
        try:
            harness.run_sync(inv.write_setting("time", ts))
        except Exception as ex:
            acc.fail("C03|es-vendor|time|exception|%s" % type(ex).__name__, repr(ex), case)
        drain("time", case)
    acc.cls("es_vendor_sequences", checks)


# ---------------------------------------------------------------------------------------------
# Hypothesis joint sampling
# ---------------------------------------------------------------------------------------------
def hyp_job(job):
    seed, n = job
    from hypothesis import strategies as st
    acc = Acc()
    u16s = st.one_of(st.sampled_from(BOUND16), st.integers(0, 0xFFFF))
    vals = st.one_of(st.sampled_from((0, 1, -1, -32768, 32767, -256, 255, 256, -129, 128)), st.integers(-32768, 32767))
    addrs = st.integers(0, 255)
    payloads = st.integers(1, 123).flatmap(lambda k: st.binary(min_size=2 * k, max_size=2 * k))
    cmd = st.one_of(
        st.tuples(st.sampled_from(("rtu", "tcp")), st.just("read"), addrs, u16s, st.integers(1, 125)),
        st.tuples(st.sampled_from(("rtu", "tcp")), st.just("write"), addrs, u16s, vals),
        st.tuples(st.sampled_from(("rtu", "tcp")), st.just("write_multi"), addrs, u16s, payloads),
        st.tuples(st.just("aa55"), st.just("read"), st.just(0), u16s, st.integers(1, 125)),
        st.tuples(st.just("aa55"), st.just("write"), st.just(0), u16s, vals),
        st.tuples(st.just("aa55"), st.just("write_multi"), st.just(0), u16s, st.binary(min_size=8, max_size=8)),
    )

    def body(c):
        framing, kind, addr, reg, arg = c
        sub = Acc()
        if framing == "aa55":
            check_aa55(sub, kind, reg, arg)
        else:
            check_modbus(sub, framing, kind, addr, reg, arg)
        acc.evals += sub.evals
        acc.nt |= sub.nt
        acc.cls("hyp|%s|%s" % (framing, kind))
        if len(acc.samples) < 3:
            acc.sample({"framing": framing, "kind": kind, "addr": addr, "reg": reg, "arg": arg})
        out = [(k, v["msg"], v["case"]) for k, v in sub.viol.items()]
        for k in sub.known:
            out.append((k, sub.known_msg[k], c))
        return out

    harness.hyp_search(acc, body, [cmd], seed=seed, max_examples=n)
    return acc


# ---------------------------------------------------------------------------------------------
def run(ctx):
    jobs = []
    parts = 16
    for framing in ("rtu", "tcp"):
        for kind in ("read", "write", "write_multi"):
            for lo, hi in _ranges(0, 65536, parts // 2):
                jobs.append(("reg", framing, kind, lo, hi))
        for lo, hi in _ranges(-32768, 32768, parts // 2):
            jobs.append(("value", framing, "write", lo, hi))
        for lo, hi in _ranges(0, 256, 4):
            jobs.append(("addr_count", framing, "read", lo, hi))
        jobs.append(("multi_len", framing, "write_multi", 2, 248))
    for kind in ("read", "write", "write_multi"):
        for lo, hi in _ranges(0, 65536, parts // 2):
            jobs.append(("reg", "aa55", kind, lo, hi))
    for lo, hi in _ranges(-32768, 32768, parts // 2):
        jobs.append(("value", "aa55", "write", lo, hi))
    ctx.shard(sweep_job, jobs, "exhaustive per-argument sweeps (register, value, address x count, payload length)")
    ctx.exhaustive_parts.append("every register 0..65535, every value -32768..32767, every (address, count) pair and "
                                "every even payload length 2..246 per framing/kind, other arguments at boundary values")
    n = ctx.pick(5000, 50000)
    ctx.shard(hyp_job, [(ctx.seed * 1000 + i, n // 8) for i in range(8)], "hypothesis joint argument sampling")
    tx_history(ctx.acc, ctx.pick(140000, 400000), ctx.seed)
    ctx.engines.append("Modbus/TCP transaction-id history")
    es_vendor_commands(ctx.acc)
    ctx.engines.append("ES vendor (03xx) commands parsed by the strict AA55 parser")
    try:
        from checks import c03_e2e
    except ImportError:
        ctx.skipped.append("end-to-end observation at the peer (module not built yet)")
    else:
        c03_e2e.run(ctx)


def replay(ctx, case):
    acc = ctx.acc
    if "history_step" in case or "steps" in case:
        tx_history(acc, case["steps"], case.get("seed", 1))
    elif "es" in case or "fixed" in case:
        es_vendor_commands(acc)
    elif case.get("e2e"):
        from checks import c03_e2e
        c03_e2e.replay(ctx, case)
    elif case["framing"] == "aa55":
        check_aa55(acc, case["kind"], case["reg"], case["arg"])
    else:
        check_modbus(acc, case["framing"], case["kind"], case["addr"], case["reg"], case["arg"])
