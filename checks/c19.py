"""C19 - operation mode, export limit and DoD setters round-trip with their getters."""
from __future__ import annotations

from vlib import harness, refsensor as rs, siminv
from vlib.harness import Acc, run_sync
from checks.c12 import mix

LEVEL = "exploration"
RULE = ("case = (family/firmware variant in {ET eco-v1, ET eco-v2, ET eco-v2 without peak shaving, ET 745 platform, ES eco-v1 (old "
        "and new ARM), ES eco-v2}, mode from get_operation_modes(True), power 1..100, SoC 0..100, prior contents of the eco-mode "
        "group registers: every schedule type on/off, 0x55 'unset', all-00, all-FF, 24/7 charge, 24/7 discharge, undecodable "
        "garbage). Encoder level: all 10,100 (power, SoC) pairs x every schedule type are enumerated (encode -> reference decode -> "
        "is_eco_*_mode / get_power / soc). API level: all modes x priors x variants with a (power, SoC) grid, plus Hypothesis "
        "samples, run against a simulated inverter; after the setter returned, get_operation_mode() must return the mode, group 1 "
        "must decode to the requested power/SoC and groups 2-4 must be switched off. Export limits (all values) and DoD 0..100 "
        "are enumerated for ET/ES/DT. Non-trivial = emulated mode, or prior group of a different schedule type than the one "
        "written; distinct by the whole case.")
ASSUMPTIONS = [
    "eco-mode V1 has no SoC register: the SoC part is asserted only on eco-mode V2 firmware (DESIGN.md D6)",
    "ES vendor commands act on the simulator as transcribed in vlib/siminv.py (0359 work mode -> settings byte 66, 0335 export "
    "limit -> byte 52, register 0x560 <-> settings byte 32); a wrong vendor constant in es.py is invisible here",
    "the shared schedule_type attribute of the class-level setting definitions is reset before every case (its leaking between "
    "inverter objects is the subject of C20)",
    "export limit 65535 (all-ones sentinel on read) is outside the round-trip domain (D5)",
]

VARIANTS = {
    "ET-v1": dict(family="ET", serial=b"9010KETU000W0000", refuse=["eco_v2", "peak_shaving"]),
    "ET-v2": dict(family="ET", serial=b"9010KETU000W0000", refuse=[]),
    "ET-v2-nopeak": dict(family="ET", serial=b"9010KETU000W0000", refuse=["peak_shaving"]),
    "ET-745": dict(family="ET", serial=b"9010KETT000W0000", refuse=[]),
    "ES-v1-arm0": dict(family="ES", serial=b"95048ESU000W0000", firmware=b"02041"),
    "ES-v1-arm7": dict(family="ES", serial=b"95048ESU000W0000", firmware=b"02047"),
    "ES-v2": dict(family="ES", serial=b"95048ESU000W0000", firmware=b"2214E"),
    "DT-three": dict(family="DT", serial=b"9010KDTU000W0000", refuse=[]),
    "DT-single": dict(family="DT", serial=b"9010KDSN000W0000", refuse=[]),
    # the same devices reached over Modbus/TCP (port 502): other command classes, other response validator
    "ET-v2-tcp": dict(family="ET", serial=b"9010KETU000W0000", refuse=[], tcp=True),
    "DT-single-tcp": dict(family="DT", serial=b"9010KDSN000W0000", refuse=[], tcp=True),
}


def v2_group(on_off, power=0x0014, soc=100, months=0, sh=0, sm=0, eh=23, em=59, days=0x7F):
    return bytes((sh & 0xFF, sm & 0xFF, eh & 0xFF, em & 0xFF, on_off & 0xFF, days & 0xFF)) + (power & 0xFFFF).to_bytes(2, "big") + \
        (soc & 0xFFFF).to_bytes(2, "big") + (months & 0xFFFF).to_bytes(2, "big")


PRIORS_V2 = {}
for _t in range(7):
    PRIORS_V2["type%d-on" % _t] = v2_group(-1 - _t, power=(20 if _t != 6 else 200), sh=8, eh=10)
    PRIORS_V2["type%d-off" % _t] = v2_group(_t, power=(20 if _t != 6 else 200), sh=8, eh=10)
for _t in (1, 2, 3, 4, 5, 6):
    # a foreign schedule type whose group fails decoding LATE (times / flavour byte fine, SoC or power out of range)
    PRIORS_V2["type%d-badsoc" % _t] = v2_group(-1 - _t, power=(20 if _t != 6 else 200), sh=8, eh=10, soc=0xFFFF)
    PRIORS_V2["type%d-badpower" % _t] = v2_group(_t, power=0x7FFF, sh=8, eh=10, soc=50)
PRIORS_V2.update({
    "badsoc-unset": v2_group(0x55, sh=0x30, sm=0, eh=0x30, em=0, days=0, power=100, soc=0xFFFF),
    "unset": v2_group(0x55, sh=0x30, sm=0, eh=0x30, em=0, days=0, power=100),
    "zeros": bytes(12),
    "ones": b"\xff" * 12,
    "fulltime-charge": v2_group(-1, power=-50 & 0xFFFF, soc=80),
    "fulltime-discharge": v2_group(-1, power=40, soc=100),
    "fulltime-charge-745": v2_group(-7, power=-500 & 0xFFFF, soc=80, months=0x0FFF),
    "garbage": bytes.fromhex("632563256325632563256325"),
    # groups limited to some months / days (every schedule field that the emulated-mode encoder might be tempted to keep)
    "months-jan-feb": v2_group(-1, power=20, sh=8, eh=10, months=0x0003),
    "months-745-some": v2_group(-7, power=200, sh=8, eh=10, months=0x0801),
    "days-weekend-off": v2_group(0, power=20, sh=8, eh=10, days=0x41, soc=30, months=0x0100),
})
# systematic grid: every schedule type x on/off x month mask (all-year explicit, eleven months, one month) x fulltime/window,
# and day masks other than "every day" - so that no single (type, months, days) combination is left to a hand-picked example
GRID_PRIORS = []
for _t in range(7):
    for _on in (True, False):
        for _m in (0x0FFF, 0x0FFE, 0x0001):
            for _ft in (True, False):
                _n = "grid-t%d-%s-m%03x-%s" % (_t, "on" if _on else "off", _m, "ft" if _ft else "win")
                PRIORS_V2[_n] = v2_group((-1 - _t) if _on else _t, power=((-30 & 0xFFFF) if _ft and _t % 2 == 0 else (20 if _t != 6 else 200)), soc=60, months=_m,
                                         **({} if _ft else dict(sh=8, eh=10)))
                GRID_PRIORS.append(_n)
        for _d in (0x3E, 0x00):
            _n = "grid-t%d-%s-d%02x" % (_t, "on" if _on else "off", _d)
            PRIORS_V2[_n] = v2_group((-1 - _t) if _on else _t, power=(20 if _t != 6 else 200), soc=60, days=_d)
            GRID_PRIORS.append(_n)
PRIORS_V1 = {
    "off": bytes.fromhex("3000300000640000"),
    "window-on": bytes.fromhex("080a0a1e0014ff3e"),
    "zeros": bytes(8),
    "ones": b"\xff" * 8,
    "fulltime-charge": bytes.fromhex("0000173bffceff7f"),
    "fulltime-discharge": bytes.fromhex("0000173b0028ff7f"),
    "garbage": bytes.fromhex("6325632563256325"),
}


class _FailAt:
    def __init__(self, inner):
        self.inner, self.k, self.kind = inner, None, "silent"

    def arm(self, k, kind):
        self.k, self.kind = k, kind

    def disarm(self):
        self.k = None

    def respond(self, data):
        if self.k is not None:
            self.k -= 1
            if self.k < 0:
                self.k = None
                return None if self.kind == "silent" else self.inner.exception(data, getattr(self, "code", 6))
        return self.inner.respond(data)

    def __getattr__(self, name):
        return getattr(self.inner, name)


def reset_shared_state():
    """The setting definitions are class-level objects that decoding mutates; put every one of them back to its
    import-time state so that a case never depends on the cases executed before it."""
    from vlib import tables
    tables.restore_definitions()


def build(variant, salt=0):
    cfg = dict(VARIANTS[variant])
    inv, sim = siminv.build_direct(cfg, default=0)
    run_sync(inv.read_device_info())
    return inv, sim


def eco_layout(inv):
    """(group register addresses, registers per group, v2?) from the inverter's own settings table (the tables are the register doc)."""
    s1 = inv._settings["eco_mode_1"]
    v2 = s1.size_ == 12
    return [inv._settings["eco_mode_%d" % i].offset for i in (1, 2, 3, 4)], s1.size_ // 2, v2


def sim_space(sim, addr):
    if isinstance(sim, siminv.Aa55Sim):
        if addr > 30000:
            return sim.modbus.get, sim.modbus.set_bytes
        return sim.reg_get, lambda reg, data: [sim.reg_set(reg + i // 2, (data[i] << 8) | data[i + 1]) for i in range(0, len(data), 2)]
    return sim.get, sim.set_bytes


def run_mode_case(acc: Acc, case):
    """case: variant, mode, power, soc, prior (name), others (name for groups 2-4)"""
    from goodwe.inverter import OperationMode
    acc.case()
    reset_shared_state()
    variant = case["variant"]
    fam = VARIANTS[variant]["family"]
    inv, sim = build(variant)
    if case.get("info_history"):
        # earlier read_device_info() runs on the same object in which request k (0 = identification block, 1 = eco-mode v2 probe,
        # 2 = peak-shaving probe) got no answer / a 'busy' exception; then a clean run - the state the calls below start from
        from goodwe.exceptions import InverterError
        fault = _FailAt(siminv.responder_for(inv, sim))
        siminv.attach_direct(inv, fault)
        for k_req, kind in case["info_history"]:
            fault.arm(k_req, kind)
            try:
                run_sync(inv.read_device_info())
            except InverterError:
                pass
            fault.disarm()
        run_sync(inv.read_device_info())
    groups, nregs, v2 = eco_layout(inv)
    priors = PRIORS_V2 if v2 else PRIORS_V1
    get, set_bytes = sim_space(sim, groups[0])
    if case["prior"] not in priors:
        return []
    set_bytes(groups[0], priors[case["prior"]])
    for g in groups[1:]:
        set_bytes(g, priors[case.get("others", "fulltime-charge") if case.get("others", "fulltime-charge") in priors else "fulltime-charge"])
    mode = OperationMode(case["mode"])
    p, s = case["power"], case["soc"]
    emulated = mode in (OperationMode.ECO_CHARGE, OperationMode.ECO_DISCHARGE)
    if emulated or case["prior"] not in ("off", "zeros", "type0-off"):
        acc.nontrivial(variant, int(mode), p, s, case["prior"], case.get("others"), repr(case.get("before")), repr(case.get("info_history")), repr(case.get("reader")), repr(case.get("fault")))
    modes = run_sync(inv.get_operation_modes(True))
    if mode not in modes:
        return []
    pc = case["prior"]
    prior_class = pc.split("-")[0] if pc.startswith(("type", "months", "days", "grid")) else ("fulltime-charge" if pc.startswith("fulltime-charge") else pc)
    undecodable_prior = pc in ("garbage", "ones") or "bad" in pc
    key = "C19|%s|%s" % (fam, "emulated" if emulated else mode.name)
    for (m0, p0, s0) in case.get("before", ()):
        # earlier successful calls on the same object / inverter (e.g. the same mode and power with another SoC target)
        if OperationMode(m0) in modes:
            try:
                run_sync(inv.set_operation_mode(OperationMode(m0), p0, s0))
            except ValueError:
                pass
    if case.get("before") or pc.startswith("grid"):
        # what matters for the call under test is what group 1 holds NOW (same classes as the static priors, so that one root
        # cause keeps one bucket key)
        raw0 = b"".join(get(groups[0] + i).to_bytes(2, "big") for i in range(nregs))
        try:
            f0 = rs.schedule_fields(raw0) if v2 else rs.eco_v1_fields(raw0)
            pw0 = rs.schedule_power(f0["schedule_type"], f0["power"]) if v2 else f0["power"]
            if (f0["start_h"], f0["start_m"], f0["end_h"], f0["end_m"]) == (0, 0, 23, 59) and f0["day_bits"] in (127, -1) and f0["on_off"] < 0 and pw0:
                prior_class = "fulltime-charge" if pw0 < 0 else "fulltime-discharge"
        except rs.Undecodable:
            pass
    try:
        if case.get("reader"):
            # a monitoring call runs on the same object while the setter is at work (started `offset` scheduling steps later,
            # requests served one at a time in arrival order)
            rname, offset = case["reader"]
            reader = {"eco_mode_1": lambda: inv.read_setting("eco_mode_1"), "get_mode": lambda: inv.get_operation_mode(),
                      "settings": lambda: inv.read_settings_data(), "eco_mode_2": lambda: inv.read_setting("eco_mode_2")}[rname]
            _res, exc_main = siminv.run_overlapping(inv, lambda: inv.set_operation_mode(mode, p, s), [(reader, offset)])
            if exc_main is not None:
                raise exc_main
        elif case.get("fault") and fam != "ES":
            # one request in the middle of the setter gets no answer / a 'busy' exception frame / an 'illegal address' frame.  The
            # property speaks about calls that SUCCEED: a call that reports the failure is fine, one that returns normally is judged
            from goodwe.exceptions import InverterError
            k_req, kind = case["fault"]
            fault = _FailAt(siminv.responder_for(inv, sim))
            fault.code = {"busy": 6, "illegal": 2, "silent": 6}[kind]
            siminv.attach_direct(inv, fault)
            fault.arm(k_req, "silent" if kind == "silent" else "busy")
            try:
                run_sync(inv.set_operation_mode(mode, p, s))
            except (InverterError, ValueError):     # ValueError: the setting was dropped as unknown after an 'illegal data address' answer
                acc.cls("setter-reported-the-fault")
                return []
            finally:
                fault.disarm()
            acc.cls("setter-succeeded-despite-fault")
        else:
            run_sync(inv.set_operation_mode(mode, p, s))
    except ValueError as ex:
        acc.cls("set-raised-ValueError")
        if emulated and case["prior"] not in ("garbage", "ones") and "bad" not in case["prior"]:
            return [(key + "|setter-raised|prior=%s" % prior_class, "set_operation_mode(%s, %d, %d) raised %r with a decodable prior group (%s)" % (
                mode.name, p, s, ex, case["prior"]), case)]
        return []  # the property speaks about calls that succeed
    except Exception as ex:
        return [(key + "|setter-raised|%s" % type(ex).__name__, "set_operation_mode(%s, %d, %d) raised %r" % (mode.name, p, s, ex), case)]
    fails = []
    try:
        got = run_sync(inv.get_operation_mode())
    except ValueError as ex:
        if undecodable_prior and not emulated:
            # group 1 holds bytes that are no group of any schedule type and set(ECO) does not touch it: outside the
            # property's quantifier ("prior contents ... all schedule types"); classified, not reported
            acc.cls("getter-ValueError-on-undecodable-prior")
            return []
        return [(key + "|getter-raised|prior=%s" % prior_class, "get_operation_mode() after set_operation_mode(%s, %d, %d) raised %r" % (mode.name, p, s, ex), case)]
    except Exception as ex:
        return [(key + "|getter-raised|prior=%s" % prior_class, "get_operation_mode() after set_operation_mode(%s, %d, %d) raised %r; group 1 registers %s" % (
            mode.name, p, s, ex, b"".join(get(groups[0] + i).to_bytes(2, "big") for i in range(nregs)).hex()), case)]
    if got != mode:
        fails.append((key + "|getter-differs|prior=%s" % prior_class, "get_operation_mode() = %r after set_operation_mode(%s, %d, %d), prior group 1 %s" % (
            got, mode.name, p, s, case["prior"]), case))
        return fails
    if emulated:
        raw = b"".join(get(groups[0] + i).to_bytes(2, "big") for i in range(nregs))
        try:
            if v2:
                f = rs.schedule_fields(raw)
                power = rs.schedule_power(f["schedule_type"], f["power"])
                soc = f["soc"]
            else:
                f = rs.eco_v1_fields(raw)
                power, soc = f["power"], None
        except rs.Undecodable as ex:
            return [(key + "|group1-undecodable|prior=%s" % prior_class, "group 1 registers %s are not a valid group (%s)" % (raw.hex(), ex), case)]
        want = -p if mode == OperationMode.ECO_CHARGE else p
        if power != want:
            fails.append((key + "|group1-power|prior=%s" % prior_class, "group 1 decodes to power %r, requested %r (registers %s)" % (power, want, raw.hex()), case))
        if v2 and mode == OperationMode.ECO_CHARGE and soc != s:
            fails.append((key + "|group1-soc|prior=%s" % prior_class, "group 1 decodes to SoC %r, requested %r" % (soc, s), case))
        whole_day = (f["start_h"], f["start_m"], f["end_h"], f["end_m"]) == (0, 0, 23, 59) and f["day_bits"] in (127, -1)
        if v2 and f["month_bits"] not in (0, 0x0FFF):
            fails.append((key + "|group1-months|prior=%s" % prior_class, "group 1 is limited to months 0x%04x (registers %s)" % (f["month_bits"] & 0xFFFF, raw.hex()), case))
        if not whole_day or (f["on_off"] >= 0):
            fails.append((key + "|group1-not-fulltime|prior=%s" % prior_class, "group 1 %s is not an enabled 24/7 group" % raw.hex(), case))
        # the value the library itself reads back must agree
        try:
            g1 = run_sync(inv.read_setting("eco_mode_1"))
            if g1.get_power() != want:
                fails.append((key + "|library-readback-power|prior=%s" % prior_class, "read_setting('eco_mode_1').get_power() = %r, requested %r" % (g1.get_power(), want), case))
            if v2 and mode == OperationMode.ECO_CHARGE and g1.soc != s:
                fails.append((key + "|library-readback-soc|prior=%s" % prior_class, "soc %r != %r" % (g1.soc, s), case))
        except Exception as ex:
            fails.append((key + "|library-readback-raised|prior=%s" % prior_class, repr(ex), case))
        for n, g in enumerate(groups[1:], start=2):
            on_off = rs._s(get(g + (2 if v2 else 3)).to_bytes(2, "big")[0:1])
            off = (0 <= on_off < 10) if v2 else on_off == 0
            if not off:
                fails.append((key + "|group%d-still-on" % n, "group %d on/off byte is %d after the setter (must be switched off)" % (n, on_off), case))
                break
    return fails


def _apply(acc, case, fn):
    for key, msg, c in fn(acc, case):
        acc.fail(key, msg, c)


# ---------------------------------------------------------------------------------------------
def encoder_job(job):
    kind, lo, hi = job
    from goodwe.sensor import EcoModeV1, EcoModeV2, ScheduleType
    from goodwe.protocol import ProtocolResponse
    acc = Acc()
    for p in range(lo, hi):
        for s in range(0, 101):
            for charge in (True, False):
                acc.case()
                acc.nontrivial_counted()
                case = {"encoder": kind, "power": p, "soc": s, "charge": charge}
                if kind == "v1":
                    g = EcoModeV1("eco_mode_1", 47515, "x")
                    raw = g.encode_charge(p, s) if charge else g.encode_discharge(p)
                    try:
                        f = rs.eco_v1_fields(raw)
                    except rs.Undecodable as ex:
                        acc.fail("C19|encoder|v1|undecodable", "%s: %s" % (raw.hex(), ex), case)
                        continue
                    power = f["power"]
                    soc = None
                else:
                    g = EcoModeV2("eco_mode_1", 47547, "x")
                    g.schedule_type = ScheduleType(int(kind[1:]))
                    raw = g.encode_charge(p, s) if charge else g.encode_discharge(p)
                    try:
                        f = rs.schedule_fields(raw)
                    except rs.Undecodable as ex:
                        acc.fail("C19|encoder|%s|undecodable" % kind, "%s: %s" % (raw.hex(), ex), case)
                        continue
                    if f["schedule_type"] != int(kind[1:]):
                        acc.fail("C19|encoder|%s|type-not-kept" % kind, "encoded on/off %d decodes to type %d" % (f["on_off"], f["schedule_type"]), case)
                        continue
                    power = rs.schedule_power(f["schedule_type"], f["power"])
                    soc = f["soc"]
                want = -p if charge else p
                if power != want:
                    acc.fail("C19|encoder|%s|power" % kind, "encode(%d) decodes to %r" % (want, power), case)
                if soc is not None and charge and soc != s:
                    acc.fail("C19|encoder|%s|soc" % kind, "encode soc %d decodes to %r" % (s, soc), case)
                try:
                    back = type(g)("eco_mode_1", g.offset, "x").read_value(ProtocolResponse(raw, None))
                    ok = back.is_eco_charge_mode() if charge else back.is_eco_discharge_mode()
                    if not ok or back.get_power() != want:
                        acc.fail("C19|encoder|%s|library-decode" % kind, "library decodes %s to power %r, is_eco_%s_mode=%r" % (
                            raw.hex(), back.get_power(), "charge" if charge else "discharge", ok), case)
                except Exception as ex:
                    acc.fail("C19|encoder|%s|library-decode-raised" % kind, "%s: %r" % (raw.hex(), ex), case)
    return acc


def mode_job(job):
    variant, quick, only_mode = job
    from goodwe.inverter import OperationMode
    acc = Acc()
    inv, _ = build(variant)
    _, _, v2 = eco_layout(inv)
    priors = PRIORS_V2 if v2 else PRIORS_V1
    grid = [(1, 0), (100, 100), (37, 81), (50, 100), (100, 0), (1, 100), (99, 1)]
    if not quick:
        grid += [(p, (p * 7) % 101) for p in range(2, 100, 3)]
    for mode in OperationMode:
        if int(mode) != only_mode:
            continue
        for prior in priors:
            for others in (("fulltime-charge", prior) if not prior.startswith("grid") else ("fulltime-charge",)):
                for (p, s) in ((grid if not prior.startswith("grid") else grid[1:4]) if mode in (OperationMode.ECO_CHARGE, OperationMode.ECO_DISCHARGE) else grid[:2]):
                    case = {"variant": variant, "mode": int(mode), "power": p, "soc": s, "prior": prior, "others": others}
                    _apply(acc, case, run_mode_case)
                    if mode in (OperationMode.ECO_CHARGE, OperationMode.ECO_DISCHARGE) and others == prior and prior in ("off", "fulltime-charge", "type0-on"):
                        # the call under test follows earlier set_operation_mode calls (same mode / power, other SoC; other mode)
                        for before in ([[int(mode), p, (s + 40) % 101]], [[int(mode), (p % 100) + 1, s]], [[int(mode), p, s], [1, 0, 0]],
                                       [[98 if int(mode) == 99 else 99, p, s]], [[3, 0, 0], [int(mode), p, 100 - s]]):
                            _apply(acc, dict(case, before=before), run_mode_case)
                    if mode in (OperationMode.ECO_CHARGE, OperationMode.ECO_DISCHARGE) and others == prior and prior in ("off", "type0-on") and variant.startswith("ET"):
                        for ih in ([[1, "silent"]], [[2, "silent"]], [[1, "busy"]], [[0, "silent"]], [[1, "silent"], [2, "busy"]]):
                            _apply(acc, dict(case, info_history=ih), run_mode_case)
                    if mode in (OperationMode.ECO_CHARGE, OperationMode.ECO_DISCHARGE, OperationMode.ECO) and others == prior and (p, s) == grid[2 if mode != OperationMode.ECO else 0] \
                            and not variant.startswith("DT"):
                        # a monitoring call overlaps the setter on the same object, at every start offset
                        for rname in ("eco_mode_1", "get_mode", "settings", "eco_mode_2"):
                            for offset in range(0, 12) if rname != "settings" else (0, 2, 5):
                                _apply(acc, dict(case, reader=[rname, offset]), run_mode_case)
                    if others == "fulltime-charge" and (p, s) == grid[2 if mode in (OperationMode.ECO_CHARGE, OperationMode.ECO_DISCHARGE) else 0] and variant.startswith("ET") \
                            and prior in ("off", "fulltime-charge", "type0-on", "unset"):
                        # a fault at request k of the setter (no answer, 'busy', 'illegal data address')
                        for k_req in range(0, 12):
                            for kind in ("busy", "silent", "illegal"):
                                _apply(acc, dict(case, fault=[k_req, kind]), run_mode_case)
                    if len(acc.samples) < 1 and mode == OperationMode.ECO_CHARGE and prior == "unset":
                        acc.sample(case)
    return acc


def run_limit_case(acc: Acc, case):
    acc.case()
    variant = case["variant"]
    inv, sim = build(variant)
    fails = []
    if case["what"] == "export":
        x = case["value"]
        if x & 0x8000:
            acc.nontrivial(variant, "export", x)
        try:
            run_sync(inv.set_grid_export_limit(x))
            got = run_sync(inv.get_grid_export_limit())
        except Exception as ex:
            return [("C19|%s|export-limit|raised|%s" % (variant, type(ex).__name__), "export limit %d: %r" % (x, ex), case)]
        if got != x:
            fails.append(("C19|%s|export-limit|differs" % variant, "get_grid_export_limit() = %r after set_grid_export_limit(%d)" % (got, x), case))
    else:
        d = case["value"]
        acc.nontrivial(variant, "dod", d)
        try:
            run_sync(inv.set_ongrid_battery_dod(d))
            got = run_sync(inv.get_ongrid_battery_dod())
        except Exception as ex:
            return [("C19|%s|dod|raised|%s" % (variant, type(ex).__name__), "dod %d: %r" % (d, ex), case)]
        if got != d:
            fails.append(("C19|%s|dod|differs" % variant, "get_ongrid_battery_dod() = %r after set_ongrid_battery_dod(%d)" % (got, d), case))
    return fails


def run_limit_history(acc: Acc, case):
    """Getters and setters interleaved on ONE object: every getter returns what the most recent setter of that quantity set (or
    what the registers held before any setter) - also right after an earlier getter, another setter or a mode change."""
    acc.case()
    variant = case["variant"]
    acc.nontrivial(variant, "limit-history", repr(case["ops"]))
    inv, sim = build(variant)
    last = {}
    for i, (op, arg) in enumerate(case["ops"]):
        try:
            if op == "set_export_failing":
                # the write of this call gets no answer (transient): the call reports the failure, nothing is remembered as set
                from goodwe.exceptions import InverterError
                inner = inv._verif_responder

                class _DropWrites:
                    def respond(self, data):
                        return None if is_write(data) else inner.respond(data)

                    def __getattr__(self, name):
                        return getattr(inner, name)

                def is_write(data):
                    if data[:2] == b"\xaa\x55":
                        return data[4] in (2, 3)
                    return (data[7] if len(data) > 8 and data[2:4] == b"\x00\x00" else data[1]) in (6, 16)
                siminv.attach_direct(inv, _DropWrites())
                try:
                    run_sync(inv.set_grid_export_limit(arg))
                    last["export"] = arg
                except InverterError:
                    pass
                finally:
                    siminv.attach_direct(inv, inner)
            elif op == "external_export":
                # another master (the vendor app) changes the limit behind the library's back: the registers are the truth
                setting = inv._settings.get("grid_export_limit")
                if setting is not None and isinstance(sim, siminv.ModbusSim):
                    n = max(1, (setting.size_ + 1) // 2)
                    sim.set_bytes(setting.offset, int(arg).to_bytes(2 * n, "big"))
                    last["export"] = arg
            elif op == "set_export":
                run_sync(inv.set_grid_export_limit(arg))
                last["export"] = arg
            elif op == "set_dod":
                run_sync(inv.set_ongrid_battery_dod(arg))
                last["dod"] = arg
            elif op == "get_export":
                got = run_sync(inv.get_grid_export_limit())
                if "export" in last and got != last["export"]:
                    return [("C19|%s|export-limit|differs|after-history" % variant, "step %d of %s: get_grid_export_limit() = %r, last set %r" % (
                        i, case["ops"], got, last["export"]), case)]
            elif op == "get_dod":
                got = run_sync(inv.get_ongrid_battery_dod())
                if "dod" in last and got != last["dod"]:
                    return [("C19|%s|dod|differs|after-history" % variant, "step %d of %s: get_ongrid_battery_dod() = %r, last set %r" % (
                        i, case["ops"], got, last["dod"]), case)]
            elif op == "settings":
                run_sync(inv.read_settings_data())
            elif op == "runtime":
                run_sync(inv.read_runtime_data())
            elif op == "mode":
                run_sync(inv.set_operation_mode(arg))
        except Exception as ex:
            from goodwe.exceptions import InverterError
            if isinstance(ex, (InverterError, ValueError)) and op in ("settings", "runtime", "mode"):
                continue
            return [("C19|%s|limit-history|raised|%s" % (variant, type(ex).__name__), "step %d (%s) of %s: %r" % (i, op, case["ops"], ex), case)]
    return []


def limit_history_job(job):
    variant, = job
    acc = Acc()
    dt = variant.startswith("DT")
    seqs = []
    for a, b in ((0, 5000), (4000, 0), (123, 124), (65534, 1)):
        seqs.append([("get_export", 0), ("set_export", a), ("get_export", 0), ("set_export", b), ("get_export", 0), ("get_export", 0)])
        seqs.append([("settings", 0), ("set_export", a), ("get_export", 0), ("runtime", 0), ("set_export", b), ("settings", 0), ("get_export", 0)])
    for a, b in ((3000, 5000), (0, 1), (4000, 4001)):
        # a setter whose write is lost, repeated with the same value; a value changed externally, then set again to what was set before
        seqs.append([("set_export", a), ("get_export", 0), ("set_export_failing", b), ("set_export", b), ("get_export", 0)])
        seqs.append([("set_export_failing", b), ("set_export", b), ("get_export", 0), ("set_export", b), ("get_export", 0)])
        seqs.append([("set_export", a), ("external_export", b), ("get_export", 0), ("set_export", a), ("get_export", 0)])
        seqs.append([("set_export", a), ("external_export", b), ("set_export", a), ("get_export", 0)])
    if not dt:
        for a, b in ((0, 100), (80, 20), (99, 1), (50, 51)):
            seqs.append([("get_dod", 0), ("set_dod", a), ("get_dod", 0), ("set_dod", b), ("get_dod", 0)])
            seqs.append([("get_dod", 0), ("get_export", 0), ("set_dod", a), ("set_export", 7 * a), ("get_export", 0), ("get_dod", 0), ("mode", 0), ("get_dod", 0),
                         ("set_dod", b), ("settings", 0), ("get_dod", 0), ("get_export", 0)])
    for ops in seqs:
        _apply(acc, {"variant": variant, "what": "history", "ops": [list(o) for o in ops]}, run_limit_history)
    acc.sample({"variant": variant, "what": "history", "ops": [list(o) for o in seqs[0]]})
    return acc


def limit_job(job):
    variant, lo, hi, step = job
    acc = Acc()
    for x in range(lo, hi, step):
        _apply(acc, {"variant": variant, "what": "export", "value": x}, run_limit_case)
    if lo == 0 and not variant.startswith("DT"):
        for d in range(0, 101):
            _apply(acc, {"variant": variant, "what": "dod", "value": d}, run_limit_case)
    if variant.startswith("DT-single") and lo == 0:
        for x in (65535, 65536, 100000, 2 ** 31, 2 ** 32 - 2):
            _apply(acc, {"variant": variant, "what": "export", "value": x}, run_limit_case)
    return acc


def hyp_job(job):
    seed, n = job
    from hypothesis import strategies as st
    acc = Acc()
    eco_variants = [v for v in VARIANTS if not v.startswith("DT")]

    @st.composite
    def cases(draw):
        variant = draw(st.sampled_from(eco_variants))
        v2 = variant in ("ET-v2", "ET-v2-nopeak", "ET-745", "ES-v2", "ET-v2-tcp")
        priors = sorted(PRIORS_V2 if v2 else PRIORS_V1)
        return {"variant": variant, "mode": draw(st.sampled_from((0, 1, 2, 3, 4, 5, 98, 99, 98, 99))), "power": draw(st.integers(1, 100)),
                "soc": draw(st.integers(0, 100)), "prior": draw(st.sampled_from(priors)), "others": draw(st.sampled_from(priors)),
                "info_history": draw(st.lists(st.tuples(st.integers(0, 2), st.sampled_from(("silent", "busy"))).map(list), max_size=2)) if variant.startswith("ET") else [],
                "before": draw(st.lists(st.tuples(st.sampled_from((0, 1, 2, 3, 4, 5, 98, 99, 98, 99)), st.sampled_from((1, 37, 50, 100)),
                                                  st.sampled_from((0, 20, 81, 100))).map(list), max_size=2))}

    def body(case):
        if len(acc.samples) < 3:
            acc.sample(case)
        return run_mode_case(acc, case)

    harness.hyp_search(acc, body, [cases()], seed=seed, max_examples=n, max_buckets=8)
    return acc


def run(ctx):
    ej = []
    for kind in ("v1", "t0", "t6"):
        for lo in range(1, 101, 20):
            ej.append((kind, lo, min(101, lo + 20)))
    ctx.shard(encoder_job, ej, "encoder level: all (power, SoC) pairs x {eco V1, schedule type ECO_MODE, ECO_MODE_745} x charge/discharge")
    ctx.exhaustive_parts.append("encode_charge/encode_discharge for all power 1..100 x SoC 0..100 x 3 group kinds")
    ctx.shard(mode_job, [(v, ctx.quick, m) for v in VARIANTS if not v.startswith("DT") for m in (0, 1, 2, 3, 4, 5, 98, 99)], "API level: every mode x every prior group content x variant x (power, SoC) grid")
    lj = []
    for v in VARIANTS:
        step = 1 if not ctx.quick else 13
        for lo in range(0, 65535, 8192):
            lj.append((v, lo, min(65535, lo + 8192), step))
    ctx.shard(limit_job, lj, "export limits (%s) and DoD 0..100" % ("all 0..65534" if not ctx.quick else "every 13th value of 0..65534"))
    ctx.shard(limit_history_job, [(v,) for v in VARIANTS], "export limit / DoD getters and setters interleaved on one object (get, set, get, set, get ...)")
    n = ctx.pick(1600, 40000)
    ctx.shard(hyp_job, [(ctx.seed * 1000 + i, n // 16) for i in range(16)], "hypothesis (variant, mode, power, SoC, priors of group 1 and groups 2-4)")


def replay(ctx, case):
    if "encoder" in case:
        ctx.acc.merge(encoder_job((case["encoder"], case["power"], case["power"] + 1)))
    elif case.get("what") == "history":
        _apply(ctx.acc, case, run_limit_history)
    elif "what" in case:
        _apply(ctx.acc, case, run_limit_case)
    else:
        _apply(ctx.acc, case, run_mode_case)
