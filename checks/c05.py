"""C05 - retry budget and timeout are per request and exactly as configured.

Histories of requests with generated outcomes on ONE protocol object, followed by a probe request against a
silent peer (and a probe answered on its k-th retransmission); entry points connect()/discover()/
search_inverters() with a (timeout, retries) grid against a silent peer.
"""
from __future__ import annotations

import itertools

from vlib import harness, netcase, refwire as rw
from vlib.harness import Acc
from vlib.vloop import VLoop, World, ScriptedPeer, RtuResponder

LEVEL = "exploration"
RULE = ("case = (transport, keep-alive, timeout, retries, prefix of request outcomes / close() / loop change / gap, "
        "probe). All prefixes of length <= 2 over the outcome classes are enumerated for a grid of configurations, "
        "longer prefixes are sampled by Hypothesis; entry points are run for every (timeout, retries) of a grid. "
        "Non-trivial = prefix contains at least one non-success step (or the case is an entry-point case); distinct by "
        "(configuration, prefix, probe). Histories run on a bare protocol object or (flag api) through an inverter object; "
        "probes: silent, answered on the k-th retransmission, one slow / fragmented / short valid answer, pairs of invalid datagrams.")
ASSUMPTIONS = [
    "virtual-clock loop and in-memory transports model the asyncio callback contract (vlib/vloop.py)",
    "the probe request is issued either immediately after the prefix or after all pending timers have run (both generated)",
    "entry points are probed against a silent peer; groups of identical consecutive datagrams are one request",
]
EPS = 1e-9


def outcome_classes(transport):
    """name -> request step (script in ticks of T/16). k-dependent ones are expanded by the caller."""
    common = {
        "success": {"script": [["answer", 2]]},
        "success_late_in_time": {"script": [["answer", 15]]},
        "success_after_1": {"script": [["drop"], ["answer", 2]]},
        "exhausted": {"script": []},
        "rejected": {"script": [["exc", 2, 2]]},
        "rejected_after_1": {"script": [["drop"], ["exc", 2, 3]]},
        "garbage_then_silence": {"script": [["garbage", 3]]},
        "fragment_then_silence": {"script": [["lone", 9, 3]]},
        # answered in two pieces (both in time); answered by a first fragment followed by the complete frame (long read)
        # slow, not dead: every transmission is answered, but far too late (the answers are still in flight afterwards)
        "exhausted_by_late_answers": {"script": [["answer", 40]] * 8},
        "success_fragmented": {"script": [["frag", 9, 2, 6]]},
        "success_fragmented_after_1": {"script": [["drop"], ["frag", 9, 2, 6]]},
        "success_fragmented_after_2": {"script": [["drop"], ["garbage", 2], ["frag", 12, 0, 3]]},
        "fragment_then_full_after_1": {"script": [["drop"], ["frag_then_full", 14, 2, 4]], "command": ["read", 35100, 8]},
        # every transmission is answered by two invalid datagrams / chunks
        "exhausted_by_double_garbage": {"script": [["pieces", [["garbage", 2], ["garbage", 3]]]] * 8},
        "fragment_then_full_long": {"script": [["frag_then_full", 14, 2, 4]], "command": ["read", 35100, 8]},
    }
    if transport == "tcp":
        common.update({
            "reset": {"script": [["reset", 3, "ECONNRESET"]]},
            "peer_close": {"script": [["eof", 3]]},
            "connect_refused_once": {"script": [["answer", 2]], "connect": ["refused"]},
            "connect_refused_all": {"script": [], "connect": ["refused"] * 8},
            "send_error": {"script": [["senderr", "EPIPE"], ["answer", 1]]},
            # connects that fail with OSErrors outside the ConnectionError / TimeoutError families, also on a retry
            "connect_unreachable_once": {"script": [["answer", 2]], "connect": ["unreachable"]},
            "connect_unreachable_all": {"script": [], "connect": ["unreachable"] * 8},
            "drop_then_hostunreach": {"script": [["drop"], ["answer", 2]], "connect": ["ok", "hostunreach", "hostunreach", "hostunreach", "hostunreach"]},
            "drop_then_dns_failure": {"script": [["drop"], ["answer", 2]], "connect": ["ok", "gaierror", "ok"]},
            "drop_then_multiple": {"script": [["drop"], ["drop"]], "connect": ["ok", "multiple", "multiple", "timeout", "timeout"]},
            "connect_timeout_once": {"script": [["answer", 2]], "connect": ["timeout"]},
        })
    else:
        common.update({
            "send_error": {"script": [["senderr", "ECONNREFUSED"]]},
            "recv_error": {"script": [["recverr", 3, "ECONNREFUSED"]]},
            "recv_error_after_1": {"script": [["drop"], ["recverr", 3, "ECONNREFUSED"]]},
            "open_unreachable": {"script": [["answer", 2]], "connect": ["unreachable"]},
            "open_dns_failure_all": {"script": [], "connect": ["gaierror"] * 8},
        })
    return common


FAILING = ("exhausted", "garbage_then_silence", "fragment_then_silence", "exhausted_by_late_answers", "exhausted_by_double_garbage",
           "connect_refused_all", "connect_unreachable_all", "open_dns_failure_all", "send_error", "recv_error")


# commands the earlier requests of a history use (the probe keeps the default read): reads of other sizes, writes, and on AA55 the vendor's
# control-class (03xx) and write-class (02xx) commands - whatever kind of command an earlier request was, the probe's budget is the configured one
PREFIX_COMMANDS = {
    "udp": [None, ("read", 36000, 45), ("write", 47510, -5), ("write_multi", 47547, bytes(range(12)))],
    "tcp": [None, ("read", 36000, 45), ("write", 47510, -5), ("write_multi", 47547, bytes(range(12)))],
    "aa55": [None, ("aa55", "0335020fa0", "03b5"), ("aa55", "02390507000100ff", "02b9"), ("aa55", "031d00", "039d")],
}


def build_steps(transport, prefix, gap, probe, R=2, variant=0):
    steps = []
    classes = outcome_classes(transport)
    for pos, name in enumerate(prefix):
        if isinstance(name, dict):
            # free-form earlier request: any fault script of C04's alphabet; the network is drained afterwards so that nothing
            # it left in flight can answer the probe (only what the LIBRARY kept from it may matter)
            steps.append({"op": "request", "script": name["script"], "connect": list(name.get("connect", []))})
            steps.append({"op": "idle"})
            continue
        if name == "close":
            steps.append({"op": "close"})
        elif name == "newloop":
            steps.append({"op": "newloop"})
        else:
            st = dict(classes[name])
            st["op"] = "request"
            if name == "exhausted_by_late_answers":
                # every answer arrives only after the request has given up (later than (R+1) timeouts after its transmission)
                st["script"] = [["answer", 16 * (R + 1) + 8]] * (R + 1)
            if "command" in st:
                if transport == "aa55":
                    st = {"op": "request", "script": [["frag", 9, 2, 6]]}  # AA55 answers all have one length: plain fragmented success
                else:
                    st["command"] = tuple(st["command"])
            elif variant:
                cmdspec = PREFIX_COMMANDS.get(transport, [None])[(variant + pos) % len(PREFIX_COMMANDS.get(transport, [None]))]
                if cmdspec is not None:
                    st["command"] = cmdspec
            steps.append(st)
        if gap == "idle" and name != "newloop":
            steps.append({"op": "idle"})
        elif isinstance(gap, int) and gap > 0 and name != "newloop":
            steps.append({"op": "sleep", "ticks": gap})
    steps.append({"op": "request", "script": probe, "probe": True})
    return steps


def check_history(acc: Acc, case):
    acc.case()
    transport, T, R = case["transport"], case["T"], case["R"]
    prefix = case["prefix"]
    k = case.get("k")  # None: silent probe; int: answered on its k-th retransmission; str: a slow but valid single answer
    probe_cmd = None
    if k is None:
        probe_script = []
    elif isinstance(k, int):
        probe_script = [["drop"]] * k + [["answer", 2]]
    elif k.startswith("slow:"):
        probe_script = [["answer", int(k.split(":")[1])]]
    elif k.startswith("fragslow:"):
        _, d1, d2 = k.split(":")
        probe_script = [["frag", 9, int(d1), int(d2)]]
    elif k == "short":
        probe_script = [["answer", 1]]
        probe_cmd = ["read", 35100, 1]
    elif k.startswith("broken:"):
        # the peer drops the connection (TCP) / an ICMP error arrives (UDP) while the first transmission is in flight, then silence:
        # the broken attempt is one of the R+1, wherever the connection came from (fresh, kept alive by an earlier request)
        d = int(k.split(":")[1])
        probe_script = [["eof", d] if transport == "tcp" else ["recverr", d, "ECONNREFUSED"]]
    elif k.startswith("noisy:"):
        _, d1, d2 = k.split(":")     # every transmission is answered by two invalid datagrams: the budget is still R+1 transmissions
        probe_script = [["pieces", [["garbage", int(d1)], ["garbage", int(d2)]]]] * (R + 2)
    else:
        raise ValueError(k)
    steps = build_steps(transport, prefix, case.get("gap", 0), probe_script, R, case.get("cmdvar", 0))
    if probe_cmd and transport != "aa55":
        steps[-1]["command"] = probe_cmd
    full = dict(case)
    full["steps"] = steps
    if any(p not in ("success", "success_late_in_time") for p in prefix):
        acc.nontrivial(transport, case.get("keep"), T, R, repr(prefix), case.get("gap", 0), k, case.get("api", False), case.get("cmdvar", 0))
    results, world, errors, protocol = netcase.run_sequence(full)
    fails = []
    probe = results[-1]
    cfg = transport
    if probe.kind == "hang" or probe.kind.startswith("harness:"):
        fails.append(("C05|%s|hang" % cfg, "history does not complete: %r %r" % (probe.hang, probe.exc), case))
        return fails
    times = probe.times()
    dur = probe.t_end - probe.t0
    if k is None:
        want = [i * T for i in range(R + 1)]
        if len(times) < R + 1:
            fails.append(("C05|%s|budget-reduced" % cfg,
                          "silent probe after prefix %s got %d transmissions at %s, configured retries=%d" % (
                              prefix, len(times), times, R), case))
        elif len(times) > R + 1:
            fails.append(("C05|%s|budget-exceeded" % cfg,
                          "silent probe after prefix %s got %d transmissions at %s, configured retries=%d" % (
                              prefix, len(times), times, R), case))
        elif any(abs(a - b) > EPS for a, b in zip(times, want)):
            fails.append(("C05|%s|timeout-distorted" % cfg,
                          "silent probe after prefix %s transmitted at %s, expected %s" % (prefix, times, want), case))
        elif abs(dur - (R + 1) * T) > EPS:
            fails.append(("C05|%s|failure-time" % cfg,
                          "silent probe failed after %r, expected %r" % (dur, (R + 1) * T), case))
        if probe.kind not in ("MaxRetriesException", "RequestFailedException"):
            fails.append(("C05|%s|probe-outcome" % cfg, "silent probe ended with %s" % probe.kind, case))
        if any(not netcase.same_request(transport, probe.tx[0][2], e[2]) for e in probe.tx):
            fails.append(("C05|%s|probe-not-identical" % cfg, "retransmissions of the probe differ", case))
    elif isinstance(k, str) and k.startswith("broken:"):
        if len(times) > R + 1:
            fails.append(("C05|%s|budget-exceeded" % cfg,
                          "probe whose first transmission was cut off (%s) after prefix %s got %d transmissions at %s, "
                          "configured retries=%d" % (k, prefix, len(times), times, R), case))
        elif probe.kind == "ok":
            fails.append(("C05|%s|probe-outcome" % cfg, "probe that was never answered ended with a response", case))
        elif dur > (R + 1) * T + EPS:
            fails.append(("C05|%s|failure-time" % cfg, "probe whose first transmission was cut off (%s) after prefix %s failed after %r, "
                          "more than (retries+1) x timeout = %r" % (k, prefix, dur, (R + 1) * T), case))
        acc.cls("broken-probe|%s|%d-transmissions" % (cfg, len(times)))
    elif isinstance(k, str) and k.startswith("noisy:"):
        if len(times) > R + 1:
            fails.append(("C05|%s|budget-exceeded" % cfg,
                          "probe answered only by pairs of invalid datagrams (%s) after prefix %s got %d transmissions at %s, "
                          "configured retries=%d" % (k, prefix, len(times), times, R), case))
        elif transport != "tcp" and len(times) < R + 1:
            fails.append(("C05|%s|budget-reduced" % cfg,
                          "probe answered only by pairs of invalid datagrams (%s) after prefix %s got %d transmissions at %s, "
                          "configured retries=%d" % (k, prefix, len(times), times, R), case))
        if probe.kind == "ok":
            fails.append(("C05|%s|probe-outcome" % cfg, "probe answered only by invalid datagrams ended with a response", case))
        elif dur > (R + 1) * T + EPS:
            # invalid datagrams may end an attempt early, they never buy a request more time than retries+1 time-outs
            fails.append(("C05|%s|failure-time" % cfg, "probe answered only by pairs of invalid datagrams (%s) after prefix %s failed after %r s, more than "
                          "(retries+1) x timeout = %r (transmissions at %s)" % (k, prefix, dur, (R + 1) * T, times), case))
    elif isinstance(k, str):
        if probe.kind != "ok":
            fails.append(("C05|%s|valid-slow-answer-not-accepted" % cfg,
                          "probe with a single valid answer (%s) after prefix %s (gap %s) ended with %s, transmissions at %s" % (
                              k, prefix, case.get("gap", 0), probe.kind, times), case))
        elif len(times) != 1:
            fails.append(("C05|%s|valid-slow-answer-retransmitted" % cfg,
                          "probe with a single valid answer (%s) after prefix %s (gap %s) needed %d transmissions at %s" % (
                              k, prefix, case.get("gap", 0), len(times), times), case))
    else:
        want = [i * T for i in range(k + 1)]
        if probe.kind != "ok":
            fails.append(("C05|%s|kth-answer-not-accepted" % cfg,
                          "probe answered on retransmission %d (retries=%d) after prefix %s ended with %s, transmissions at %s" % (
                              k, R, prefix, probe.kind, times), case))
        elif len(times) != k + 1 or any(abs(a - b) > EPS for a, b in zip(times, want)):
            fails.append(("C05|%s|kth-answer-schedule" % cfg,
                          "probe answered on retransmission %d transmitted at %s, expected %s" % (k, times, want), case))
    return fails


def _apply(acc, case, fn=check_history):
    for key, msg, c in fn(acc, case):
        acc.fail(key, msg, c)


def enum_job(job):
    transport, keep, T, R, gap = job
    acc = Acc()
    names = list(outcome_classes(transport)) + ["close", "newloop"]
    for n in (0, 1, 2):
        for prefix in itertools.product(names, repeat=n):
            for k in (None, R, "slow:15", "slow:9", "fragslow:3:14", "short", "noisy:2:3", "broken:4"):
                case = {"transport": transport, "keep": keep, "T": T, "R": R, "prefix": list(prefix), "gap": gap,
                        "k": k, "latency": 0}
                _apply(acc, case)
                if n >= 1 and k in (None, R):
                    for cv in (1, 2, 3):      # earlier requests carry other kinds of commands (writes, AA55 control / write class)
                        _apply(acc, dict(case, cmdvar=cv))
                if n < 2 or all(p in FAILING for p in prefix):
                    _apply(acc, dict(case, api=True))   # the same history through an inverter object (all failure streaks of length 2)
    for streak in (3, 4, 6):      # longer streaks of completely failed requests through an inverter object, then the probe
        for name in ("exhausted", "garbage_then_silence"):
            if name in names:
                for k in (None, R, "slow:9"):
                    _apply(acc, {"transport": transport, "keep": keep, "T": T, "R": R, "prefix": [name] * streak, "gap": gap, "k": k, "latency": 0, "api": True})
                if n == 2 and len(acc.samples) < 1 and prefix[0] == "exhausted":
                    acc.sample(case)
    return acc


def hyp_job(job):
    seed, n = job
    from hypothesis import strategies as st
    acc = Acc()

    tick_any = st.one_of(st.integers(0, 15), st.integers(17, 40), st.sampled_from((16, 32)))
    errn = st.sampled_from(("ECONNREFUSED", "ENETUNREACH", "EHOSTUNREACH"))

    def action(transport):
        closes = st.tuples(st.just("eof"), tick_any) if transport == "tcp" else st.tuples(st.just("recverr"), tick_any, errn)
        return st.one_of(
            st.just(("drop",)), st.tuples(st.just("answer"), tick_any), st.tuples(st.just("garbage"), tick_any),
            st.tuples(st.just("short"), tick_any), st.tuples(st.just("bad"), tick_any), st.tuples(st.just("exc"), tick_any, st.integers(0, 255)),
            st.tuples(st.just("frag"), st.integers(1, 30), tick_any, tick_any), st.tuples(st.just("lone"), st.integers(1, 30), tick_any),
            st.tuples(st.just("dup"), tick_any, tick_any), closes, st.tuples(st.just("senderr"), errn),
            st.tuples(st.just("frag_then_full"), st.integers(5, 20), tick_any, tick_any)).map(list)

    @st.composite
    def cases(draw):
        transport = draw(st.sampled_from(("udp", "aa55", "tcp")))
        free = st.fixed_dictionaries({"script": st.lists(action(transport), max_size=5),
                                      "connect": st.lists(st.sampled_from(("ok", "ok", "refused", "unreachable", "gaierror", "timeout") if transport == "tcp" else ("ok", "ok", "ok", "unreachable", "gaierror")), max_size=3)})
        names = list(outcome_classes(transport)) + ["close", "newloop"]
        R = draw(st.integers(0, 5))
        return {"transport": transport, "keep": draw(st.booleans()), "T": draw(st.sampled_from((0.5, 1.0, 2.0, 4.0))),
                "R": R, "prefix": draw(st.lists(st.one_of(st.sampled_from(names), st.sampled_from(names), free), min_size=1, max_size=8)),
                "gap": draw(st.one_of(st.just(0), st.just("idle"), st.integers(1, 40))),
                "k": draw(st.one_of(st.none(), st.integers(0, R), st.integers(0, 15).map(lambda d: "slow:%d" % d), st.just("short"),
                                    st.tuples(st.integers(0, 15), st.integers(0, 15)).map(lambda t: "noisy:%d:%d" % (min(t), max(t))),
                                    st.tuples(st.integers(0, 15), st.integers(0, 15)).map(lambda t: "fragslow:%d:%d" % (min(t), max(t))),
                                    st.integers(0, 15).map(lambda d: "broken:%d" % d))),
                "latency": draw(st.integers(0, 3)), "api": draw(st.booleans())}

    def body(case):
        for p in case["prefix"]:
            acc.cls("prefix|" + (p if isinstance(p, str) else "free-script"))
        if len(acc.samples) < 3:
            acc.sample(case)
        return check_history(acc, case)

    harness.hyp_search(acc, body, [cases()], seed=seed, max_examples=n)
    return acc


# ---------------------------------------------------------------------------------------------
# entry points
# ---------------------------------------------------------------------------------------------
def group_requests(tx, tcp=False):
    """Group consecutive identical datagrams: one group = one request's transmissions
    (Modbus/TCP: identical apart from the transaction id)."""
    groups = []
    for t, tid, data, failed in tx:
        if groups and (groups[-1][0][2:] == data[2:] if tcp else groups[-1][0] == data):
            groups[-1][1].append(t)
        else:
            groups.append((data, [t]))
    return groups


class _TaggedDiscoveryResponder:
    """Answers only the AA55 discovery probe (with an identification block whose serial number carries a model tag);
    everything else gets no answer."""
    framing = "aa55"

    def __init__(self, tag):
        self.tag = tag
        self.bad_requests = []
        self.answered = False

    def respond(self, data):
        if data[:2] == b"\xaa\x55" and data[4:6] == b"\x01\x02" and not self.answered:
            self.answered = True        # only the very first probe; an ES object's own identification read (same bytes) is not
            from vlib import siminv
            return rw.aa55_response(b"\x01\x82", siminv.es_device_info(serial=("95048" + self.tag + "000W0000")[:16].encode()))
        return None


def check_entry(acc: Acc, case):
    import goodwe
    acc.case()
    acc.nontrivial("entry", case["entry"], case.get("family"), case["T"], case["R"], case.get("port"), case.get("k"), case.get("tag"))
    T, R = case["T"], case["R"]
    entry = case["entry"]
    peer = ScriptedPeer(RtuResponder(), [], default=("drop",))
    if case.get("tag"):
        # the discovery probe is answered (serial number with a model tag), every later request of the detected class is not
        peer = ScriptedPeer(_TaggedDiscoveryResponder(case["tag"]), [], default=("answer", 0.0))
    world = World(peer)
    loop = VLoop(world, max_time=1e5)
    if entry == "connect":
        coro = goodwe.connect("192.0.2.1", case["port"], case["family"], 0, T, R)
    elif entry == "discover":
        coro = goodwe.discover("192.0.2.1", case["port"], T, R)
    elif entry == "connect-discover":      # connect() without a family falls through to discover() and must hand timeout/retries on
        coro = goodwe.connect("192.0.2.1", case["port"], case.get("family"), 0, T, R)
    elif entry == "connect-nothing":       # no family, discovery switched off: nothing may be transmitted, InverterError at once
        coro = goodwe.connect("192.0.2.1", case["port"], case.get("family"), 0, T, R, False)
    else:
        coro = goodwe.search_inverters()
        T, R = 1, 0
    out = loop.run(coro)
    loop.idle()
    loop.shutdown()
    fails = []
    key0 = "C05|entry|%s" % entry
    if out.hang is not None:
        return [(key0 + "|hang", "never completes: %s" % out.hang, case)]
    if out.exc is None:
        fails.append((key0 + "|succeeded-against-silence", "returned %r against a silent peer" % (out.result,), case))
    groups = group_requests(world.tx[1:] if case.get("tag") else world.tx, tcp=case.get("port") == 502)   # [1:]: the answered probe
    if entry == "connect-nothing":
        from goodwe.exceptions import InverterError
        if groups or not isinstance(out.exc, InverterError) or out.t_end != out.t_start:
            fails.append((key0 + "|unexpected", "connect(family=%r, do_discover=False): %d probes, outcome %r after %r s" % (
                case.get("family"), len(groups), out.exc, out.t_end - out.t_start), case))
        return fails
    if not groups:
        fails.append((key0 + "|nothing-sent", "no transmission at all; outcome %r" % (out.exc,), case))
    for data, times in groups:
        rel = [t - times[0] for t in times]
        want = [i * T for i in range(R + 1)]
        if case.get("tag") and len(rel) > R + 1 and len(rel) % (R + 1) == 0:
            # the class detected from the tag and the family-probing fallback send the SAME probe back to back: k requests of
            # R+1 transmissions each, the next one starting when the previous one fails
            want = [i * T for i in range(len(rel))]
            if any(abs(a - b) > EPS for a, b in zip(rel, want)):
                fails.append((key0 + "|timeout-not-applied", "probe %s was transmitted at +%s, caller asked for timeout=%r, retries=%d" % (
                    data.hex()[:24], rel, T, R), case))
                break
            continue
        if len(rel) != R + 1:
            fails.append((key0 + "|retries-not-applied",
                          "probe %s was transmitted %d times (at +%s), caller asked for retries=%d" % (
                              data.hex()[:24], len(rel), rel, R), case))
            break
        if any(abs(a - b) > EPS for a, b in zip(rel, want)):
            fails.append((key0 + "|timeout-not-applied",
                          "probe %s was transmitted at +%s, caller asked for timeout=%r" % (data.hex()[:24], rel, T), case))
            break
    acc.cls("entry|%s|groups=%d" % (entry, len(groups)))
    return fails


def entry_job(job):
    acc = Acc()
    for case in job:
        _apply(acc, case, check_entry)
        if len(acc.samples) < 1:
            acc.sample(case)
    return acc

def api_budget_job(job):
    """The budget belongs to EVERY request an inverter object sends, also to the optional probes in the middle of a public call
    (model name / meter version / capability reads): a simulated inverter answers the first j transmissions and then goes silent.
    Every request sent from then on must be transmitted exactly retries+1 times, spaced by the timeout, whatever call it is part of
    and whatever came before (identification contents with and without a readable model name, refused optional blocks)."""
    import asyncio
    from goodwe.exceptions import InverterError
    from vlib import siminv
    fam, tcp, variant = job
    acc = Acc()
    for (T, R) in ((1.0, 2), (0.5, 1), (2.0, 0), (1.0, 4)):
        for keep in (True, False):
            for j in range(0, 14):
                case = {"api_budget": True, "family": fam, "tcp": tcp, "variant": variant, "T": T, "R": R, "keep": keep, "j": j}
                _apply(acc, case, check_api_budget)
    acc.sample(case)
    return acc


API_BUDGET_VARIANTS = {
    "ET": {"plain": dict(serial=b"9010KETU000W0000", rated_power=10000), "745": dict(serial=b"9025KETT000W0000", rated_power=25000),
           "745-refusing": dict(serial=b"9025KETT000W0000", rated_power=25000, refuse_blocks=("meter_ext2", "mppt", "battery2")),
           "nomodel": dict(serial=b"9010KETU000W0000", rated_power=10000, model=b"\xff" * 10)},
    "DT": {"plain": dict(serial=b"9010KDTU000W0000"), "nomodel": dict(serial=b"9010KDTU000W0000", model=b"\xff" * 10),
           "nomodel-single": dict(serial=b"9005KDSN000W0000", model=b"\x00\xfe" * 5),
           "nomodel-refusing": dict(serial=b"9010KDTU000W0000", model=b"\xff" * 10, refuse_blocks=("model", "meter_version"))},
    "ES": {"plain": dict(serial=b"95048ESU000W0000", firmware=b"02041"), "v2": dict(serial=b"95048ESU000W0000", firmware=b"2525G")},
}


def check_api_budget(acc: Acc, case):
    import asyncio
    from goodwe.exceptions import InverterError
    from vlib import siminv
    fam, tcp, T, R, j = case["family"], case["tcp"], case["T"], case["R"], case["j"]
    acc.case()
    acc.nontrivial("api-budget", fam, tcp, case["variant"], T, R, case["keep"], j)
    kw = dict(API_BUDGET_VARIANTS[fam][case["variant"]])
    inv = siminv.make_inverter(fam, tcp, T=T, R=R)
    inv.set_keep_alive(case["keep"])
    if fam == "ET":
        sim = siminv.make_et_sim(default=lambda a: (a * 7 + 3) & 0x7FFF, **kw)
        sim.set(35184, 1)
    elif fam == "DT":
        sim = siminv.make_dt_sim(default=lambda a: (a * 7 + 3) & 0x7FFF, **kw)
    else:
        sim = siminv.Aa55Sim(device_info=siminv.es_device_info(**kw), modbus=siminv.ModbusSim(default=lambda a: (a * 7 + 3) & 0x7FFF))
    peer = ScriptedPeer(siminv.responder_for(inv, sim), [("answer", 1 / 16.0)] * j, default=("drop",))
    world = World(peer)
    loop = VLoop(world, max_time=1e6)
    notes = []

    async def main():
        for name in ("read_device_info", "read_runtime_data", "read_device_info", "read_settings_data"):
            try:
                await getattr(inv, name)()
                notes.append((name, "ok"))
            except (InverterError, ValueError) as ex:     # ValueError: a setting that does not decode (not this property's subject)
                notes.append((name, type(ex).__name__))
            await asyncio.sleep(0)

    out = loop.run(main())
    loop.idle()
    loop.shutdown()
    key0 = "C05|api-budget|%s|%s" % (fam, "tcp" if tcp else "udp")
    if out.hang is not None:
        return [(key0 + "|hang", "never completes: %s after %s" % (out.hang, notes), case)]
    if out.exc is not None:
        return [(key0 + "|" + type(out.exc).__name__, "%r after %s" % (out.exc, notes), case)]
    silent = world.tx[j:]
    groups = group_requests(silent, tcp=tcp)
    acc.cls("api-budget|%s|answered=%d|silent-requests=%d" % (fam, min(j, len(world.tx)), len(groups)))
    for data, times in groups:
        if len(times) % (R + 1) != 0:
            return [(key0 + "|retries-not-applied", "request %s (unanswered; %d requests were answered before) was transmitted %d times at %s, "
                     "configured retries=%d; calls %s" % (data.hex()[:28], j, len(times), [round(t - times[0], 3) for t in times], R, notes), case)]
        for b in range(0, len(times), R + 1):
            blk = times[b:b + R + 1]
            if any(abs((blk[i] - blk[0]) - i * T) > EPS for i in range(len(blk))):
                return [(key0 + "|timeout-not-applied", "request %s was transmitted at +%s, configured timeout=%r retries=%d; calls %s" % (
                    data.hex()[:28], [round(t - blk[0], 3) for t in blk], T, R, notes), case)]
    return []


def entry_cases(quick):
    grid = [(0.5, 0), (0.5, 2), (2.0, 1), (4.0, 0), (2.0, 5)] if quick else [
        (t, r) for t in (0.5, 1.0, 2.0, 4.0) for r in (0, 1, 2, 4, 5)]
    cases = []
    for T, R in grid:
        for fam in ("ET", "EH", "BT", "BH", "ES", "EM", "BP", "DT", "MS", "NS", "XS"):
            for port in (8899, 502):
                if port == 502 and fam in ("ES", "EM", "BP"):
                    continue
                cases.append({"entry": "connect", "family": fam, "port": port, "T": T, "R": R})
        for port in (8899, 502):
            cases.append({"entry": "discover", "port": port, "T": T, "R": R})
            if port == 8899:
                for tag in ("ETU", "EHU", "ESU", "BPS", "DTU", "MSU", "DNS", "XYZ"):
                    cases.append({"entry": "discover", "port": port, "T": T, "R": R, "tag": tag})
                    cases.append({"entry": "connect-discover", "family": None, "port": port, "T": T, "R": R, "tag": tag})
            for fam in (None, "", "XX", "et"):
                cases.append({"entry": "connect-discover", "family": fam, "port": port, "T": T, "R": R})
                cases.append({"entry": "connect-nothing", "family": fam, "port": port, "T": T, "R": R})
    cases.append({"entry": "search", "T": 1, "R": 0})
    return cases


def run(ctx):
    from vlib import concur
    concur.register(ctx, "C05")
    jobs = []
    for transport in ("udp", "aa55", "tcp"):
        for keep in (False, True):
            for (T, R) in ((1.0, 2), (0.5, 1)) if ctx.quick else ((1.0, 2), (0.5, 1), (2.0, 3), (4.0, 0)):
                for gap in (0, "idle", 5) + (() if ctx.quick else (11,)):
                    jobs.append((transport, keep, T, R, gap))
    ctx.shard(enum_job, jobs, "exhaustive prefixes of length <= 2 over all outcome classes, probe silent / answered on last retransmission")
    ctx.exhaustive_parts.append("all prefixes of length <= 2 over the outcome classes per (transport, keep-alive, (T,R), gap)")
    n = ctx.pick(3200, 40000)
    ctx.shard(hyp_job, [(ctx.seed * 1000 + i, n // 16) for i in range(16)], "hypothesis histories up to 8 steps")
    ec = entry_cases(ctx.quick)
    ctx.shard(entry_job, [ec[i::16] for i in range(16)], "entry points connect/discover/search_inverters against a silent peer")
    ctx.shard(api_budget_job, [(fam, tcp, v) for fam in ("ET", "DT", "ES") for tcp in ((False, True) if fam != "ES" else (False,)) for v in API_BUDGET_VARIANTS[fam]],
              "inverter objects of all families: the simulated inverter goes silent after j answered transmissions (j = 0..13); every later request gets retries+1 transmissions spaced by the timeout")


def replay(ctx, case):
    if isinstance(case, dict) and case.get("overlap") and "callers" in case:
        from vlib import concur
        concur.replay(ctx.acc, case, concur.INVARIANTS["C05"], "C05")
        return
    if case.get("api_budget"):
        _apply(ctx.acc, case, check_api_budget)
    elif "entry" in case:
        _apply(ctx.acc, case, check_entry)
    else:
        _apply(ctx.acc, case)
