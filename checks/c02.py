"""C02 - every conforming response frame is accepted (and delivers exactly its payload)."""
from __future__ import annotations

from vlib import harness, netcase, refwire as rw
from vlib.harness import Acc

LEVEL = "exploration"
RULE = ("case = (framing, command kind, comm address, register, count/value/payload length, payload content class, "
        "trailing bytes after an RTU frame); conforming frames are built by the reference codec. Every read count 1..125 "
        "and every AA55 payload length 0..255 is enumerated for the content classes all-00 / all-FF / 7F-80 fill / "
        "patterned / protocol-marker bytes (AA55, 7FC0, ...); joint space sampled by Hypothesis; a sample of cases also runs end-to-end through execute(). "
        "Non-trivial = payload has a byte >= 0x80, or the frame has trailing bytes, or the AA55 byte sum >= 0x8000; "
        "distinct by (framing, command, frame bytes).")
ASSUMPTIONS = [
    "a conforming AA55 frame carries the 16-bit additive checksum modulo 2^16 (DESIGN.md D2)",
    "conforming RTU frames may be followed by arbitrary trailing bytes in the same datagram (tests/mock_udp_server.py "
    "documents inverters sending the frame twice)",
    "reference codec vlib/refwire.py builds the conforming frames",
]


def _payload(cls, n, salt=0):
    if cls == "zero":
        return bytes(n)
    if cls == "ff":
        return b"\xff" * n
    if cls == "7f80":
        return bytes((0x7F, 0x80) * ((n + 1) // 2))[:n]
    if cls == "fe":
        return b"\xfe" * n
    if cls == "markers":  # byte patterns that mean something to the framings: envelope markers, headers, function codes
        pat = b"\xaa\x55\x7f\xc0\xaa\x55\xc0\x7f\xf7\x03\x00\xaa\x55\xf7\x83\x02\x01\x86\xaa\x55\x00\x00"
        k = salt % len(pat)
        return ((pat[k:] + pat) * (n // len(pat) + 2))[:n]
    return bytes(((salt * 13 + i * 37 + 5) & 0xFF) for i in range(n))


def make_command(framing, kind, addr, reg, arg):
    from goodwe.protocol import (Aa55ProtocolCommand, Aa55ReadCommand, Aa55WriteCommand, Aa55WriteMultiCommand,
                                 TcpInverterProtocol, UdpInverterProtocol)
    if framing == "aa55":
        if kind == "read":
            return Aa55ReadCommand(reg, arg)
        if kind == "write":
            return Aa55WriteCommand(reg, arg)
        if kind == "write_multi":
            return Aa55WriteMultiCommand(reg, arg)
        return Aa55ProtocolCommand(kind[0], kind[1])  # (request payload hex, response type hex)
    P = UdpInverterProtocol if framing == "rtu" else TcpInverterProtocol
    p = P("192.0.2.1", 8899 if framing == "rtu" else 502, addr, 1, 0)
    if kind == "read":
        return p.read_command(reg, arg)
    if kind == "write":
        return p.write_command(reg, arg)
    return p.write_multi_command(reg, arg)


def conforming(framing, kind, addr, reg, arg, payload, trailing=b""):
    """Return (frame, expected payload or None)."""
    if framing == "rtu":
        if kind == "read":
            return rw.rtu_read_response(addr, payload) + trailing, payload
        if kind == "write":
            return rw.rtu_write_response(addr, reg, arg) + trailing, None
        return rw.rtu_write_multi_response(addr, reg, len(arg) // 2) + trailing, None
    if framing == "tcp":
        if kind == "read":
            return rw.tcp_read_response(0x0102, addr, payload), payload
        if kind == "write":
            return rw.tcp_write_response(0x0102, addr, reg, arg), None
        return rw.tcp_write_multi_response(0x0102, addr, reg, len(arg) // 2), None
    if kind == "read":
        return rw.aa55_response(b"\x01\x9a", payload), payload
    if kind in ("write", "write_multi"):
        return rw.aa55_response(b"\x02\xb9", payload), payload
    return rw.aa55_response(bytes.fromhex(kind[1]), payload), payload


def check_frame(acc: Acc, case):
    acc.case()
    framing, kind, addr, reg, arg = case["framing"], case["kind"], case["addr"], case["reg"], case["arg"]
    if isinstance(kind, list):
        kind = tuple(kind)
    payload = case.get("payload", b"")
    trailing = case.get("trailing", b"")
    frame, want = conforming(framing, kind, addr, reg, arg, payload, trailing)
    s = rw.sum16(frame[:-2]) if framing == "aa55" else 0
    rawsum = sum(frame[:-2]) if framing == "aa55" else 0
    if any(b >= 0x80 for b in payload) or trailing or rawsum >= 0x8000:
        acc.nontrivial(framing, repr(kind), addr, reg, repr(arg), frame)
    if framing == "aa55":
        acc.cls("aa55|sum>=0x8000" if rawsum >= 0x8000 else "aa55|sum<0x8000")
        if rawsum > 0xFFFF:
            acc.cls("aa55|sum>0xFFFF")
    if trailing:
        acc.cls("rtu|trailing")
    kname = kind if isinstance(kind, str) else "fixed"
    cmd = make_command(framing, kind, addr, reg, arg)
    fails = []
    if framing == "tcp":
        # the request has been on the wire (its transaction id is stamped and, in a long-running process, large); GoodWe firmware
        # does not reliably echo MBAP fields - any transaction id / protocol id / length the device puts there is acceptable (D1)
        cmd.request_bytes()
        for (tx, proto, ln) in ((0, 0, None), (1, 0, None), (0xFFFF, 0, None), (None, 0, 6), (None, 1, None), (0x0102, 0xFFFF, 0)):
            f2 = bytearray(frame)
            if tx is not None:
                f2[0:2] = tx.to_bytes(2, "big")
            else:
                f2[0:2] = cmd.request[0:2]
            f2[2:4] = proto.to_bytes(2, "big")
            if ln is not None:
                f2[4:6] = ln.to_bytes(2, "big")
            try:
                ok2 = cmd.validator(bytes(f2))
            except Exception as ex:
                ok2 = ex
            if ok2 is not True:
                return [("C02|tcp|%s|refused|mbap-fields" % kname, "conforming answer with MBAP transaction id %s / protocol id %d / length %s refused (%r) while the "
                         "request carries transaction id %s" % (f2[0:2].hex(), proto, ln, ok2, cmd.request[0:2].hex()), case)]
    try:
        ok = cmd.validator(frame)
    except Exception as ex:
        return [("C02|%s|%s|validator-raised|%s" % (framing, kname, type(ex).__name__),
                 "validator raised %r on conforming frame %s" % (ex, frame.hex()[:120]), case)]
    if ok is not True:
        sub = "sum>=0x8000" if rawsum >= 0x8000 else ("trailing" if trailing else "plain")
        return [("C02|%s|%s|refused|%s" % (framing, kname, sub),
                 "conforming frame refused (%d bytes, %s...)" % (len(frame), frame.hex()[:60]), case)]
    if want is not None:
        from goodwe.protocol import ProtocolResponse
        resp = ProtocolResponse(frame, cmd)
        if framing in ("rtu", "tcp") and kind == "read":
            for i in range(arg):
                resp.seek(reg + i)
                got = resp.read(2)
                if got != want[2 * i:2 * i + 2]:
                    fails.append(("C02|%s|payload-prefix" % framing,
                                  "register %d reads %s, served %s" % (reg + i, got.hex(), want[2 * i:2 * i + 2].hex()), case))
                    break
        data = resp.response_data()
        if data != want:
            key = "C02|%s|payload-exact|%s" % (framing, "trailing" if trailing else "plain")
            fails.append((key, "response_data() is %d bytes, served payload is %d bytes" % (len(data), len(want)), case))
    return fails


def _apply(acc, case, fn=check_frame):
    for key, msg, c in fn(acc, case):
        acc.fail(key, msg, c)


def check_e2e(acc: Acc, case):
    """The same frame served by the scripted peer: execute() must succeed with one transmission."""
    acc.case()
    framing, kind, addr, reg, arg = case["framing"], case["kind"], case["addr"], case["reg"], case["arg"]
    if isinstance(kind, list):
        kind = tuple(kind)
    payload = case.get("payload", b"")
    trailing = case.get("trailing", b"")
    frame, want = conforming(framing, kind, addr, reg, arg, payload, trailing)
    acc.nontrivial("e2e", framing, repr(kind), addr, reg, repr(arg), frame, case.get("keep"), case.get("host"))
    transport = {"rtu": "udp", "tcp": "tcp", "aa55": "aa55"}[framing]
    if framing == "aa55":
        spec = ("aa55", make_command(framing, kind, addr, reg, arg).request.hex()[8:-4], None)
    c = {"transport": transport, "keep": case.get("keep", False), "T": 1.0, "R": 2,
         "script": [["raw", 3, frame]], "latency": case.get("latency", 0)}
    # build protocol/command by hand to control the comm address
    from vlib.vloop import ScriptedPeer, VLoop, World
    peer = ScriptedPeer(netcase.make_responder(transport), netcase.to_actions(c["script"], 1.0))
    world = World(peer, connect_latency=c["latency"])
    loop = VLoop(world)
    protocol = netcase.make_protocol(transport, 1.0, 2, c["keep"], comm_addr=addr, host=case.get("host", "192.0.2.1"))
    cmd = make_command(framing, kind, addr, reg, arg)
    out = loop.run(cmd.execute(protocol))
    loop.idle()
    loop.shutdown()
    kname = kind if isinstance(kind, str) else "fixed"
    if out.hang is not None:
        return [("C02|%s|e2e|hang" % framing, str(out.hang), case)]
    if out.kind() != "ok":
        rawsum = sum(frame[:-2]) if framing == "aa55" else 0
        sub = "sum>=0x8000" if rawsum >= 0x8000 else ("trailing" if trailing else "plain")
        return [("C02|%s|%s|refused|%s" % (framing, kname, sub),
                 "end-to-end: conforming answer gave %s after %d transmissions" % (out.kind(), len(world.tx)), case)]
    fails = []
    if len(world.tx) != 1:
        fails.append(("C02|%s|e2e|retransmitted" % framing, "%d transmissions" % len(world.tx), case))
    if out.result.raw_data != frame:
        fails.append(("C02|%s|e2e|result-bytes" % framing, "result differs from the frame served", case))
    return fails


# ---------------------------------------------------------------------------------------------
CLASSES = ("zero", "ff", "7f80", "fe", "pattern", "markers")


def enum_job(job):
    what, lo, hi = job
    acc = Acc()
    if what == "read":
        for count in range(lo, hi):
            for cls in CLASSES:
                for framing in ("rtu", "tcp"):
                    addr = (0xF7, 0x7F, 0, 0xFF, 1)[count % 5]
                    reg = (35100, 0, 0xFFFF, 0x8000, 47547)[count % 5]
                    case = {"framing": framing, "kind": "read", "addr": addr, "reg": reg, "arg": count,
                            "payload": _payload(cls, 2 * count, count)}
                    _apply(acc, case)
                    if framing == "rtu":
                        for trailing in (b"\x00", b"\xff\xff", None):
                            c2 = dict(case)
                            c2["trailing"] = trailing if trailing is not None else conforming("rtu", "read", addr, reg, count, case["payload"])[0]
                            _apply(acc, c2)
                    if (count in (1, 2, 33, 125) and cls in ("ff", "pattern")) or cls == "markers":
                        for keep in (False, True):
                            c3 = dict(case)
                            c3["keep"] = keep
                            _apply(acc, c3, check_e2e)
                            if count in (2, 125) and cls == "pattern":   # inverter configured by name / non-canonical address spelling
                                for host in netcase.HOSTS[1:]:
                                    _apply(acc, dict(c3, host=host), check_e2e)
                aa = {"framing": "aa55", "kind": "read", "addr": 0, "reg": 0x701, "arg": count, "payload": _payload(cls, 2 * count, count)}
                _apply(acc, aa)
    elif what == "aa55len":
        for n in range(lo, hi):
            for cls in CLASSES:
                for kind in (("010200", "0182"), ("010600", "0186"), ("010900", "0189")):
                    case = {"framing": "aa55", "kind": list(kind), "addr": 0, "reg": 0, "arg": 0, "payload": _payload(cls, n, n)}
                    _apply(acc, case)
                    if (n in (0, 1, 86, 140, 255) and cls in ("ff", "pattern", "zero")) or cls == "markers":
                        _apply(acc, dict(case, keep=bool(n & 1)), check_e2e)
                if cls == "pattern" and len(acc.samples) < 1 and n >= 140:
                    acc.sample(case)
    elif what == "write":
        for v in range(lo, hi):
            for framing in ("rtu", "tcp"):
                case = {"framing": framing, "kind": "write", "addr": (0xF7, 0x7F, 0xFF)[v % 3], "reg": (47510, 0xFFFF, 0)[v % 3], "arg": v}
                _apply(acc, case)
                if v & 0x8000 or v < 0:
                    acc.nontrivial_counted()
                if framing == "rtu" and v % 97 == 0:
                    _apply(acc, dict(case, trailing=b"\x12\x34\x56"))
                if v in (-32768, -1, 0, 32767):
                    _apply(acc, dict(case, keep=True), check_e2e)
            if v % 8 == 0:
                _apply(acc, {"framing": "aa55", "kind": "write", "addr": 0, "reg": 0x560, "arg": v, "payload": b"\x06"})
    elif what == "multi":
        for n in range(lo, hi, 2):
            data = _payload("pattern", n, n)
            for framing in ("rtu", "tcp"):
                case = {"framing": framing, "kind": "write_multi", "addr": 0xF7, "reg": 47547, "arg": data}
                _apply(acc, case)
                if n in (2, 12, 246):
                    _apply(acc, dict(case, keep=False), check_e2e)
        _apply(acc, {"framing": "aa55", "kind": "write_multi", "addr": 0, "reg": 0x701, "arg": bytes(8), "payload": b"\x06"})
    return acc


def hyp_job(job):
    seed, n = job
    from hypothesis import strategies as st
    acc = Acc()
    def content(k):
        raw = st.binary(min_size=k, max_size=k)
        if k >= 2:  # splice an envelope marker somewhere into random content
            marked = st.tuples(raw, st.integers(0, k - 2), st.sampled_from((b"\xaa\x55", b"\x7f\xc0", b"\xc0\x7f"))).map(
                lambda t: t[0][:t[1]] + t[2] + t[0][t[1] + 2:])
            return st.one_of(raw, marked, st.sampled_from(CLASSES).map(lambda c: _payload(c, k, k)))
        return st.one_of(raw, st.sampled_from(CLASSES).map(lambda c: _payload(c, k, k)))

    @st.composite
    def cases(draw):
        framing = draw(st.sampled_from(("rtu", "tcp", "aa55", "aa55fixed")))
        addr = draw(st.integers(0, 255))
        reg = draw(st.one_of(st.sampled_from((0, 0x7FFF, 0x8000, 0xFFFF)), st.integers(0, 0xFFFF)))
        if framing == "aa55fixed":
            n = draw(st.integers(0, 255))
            return {"framing": "aa55", "kind": draw(st.sampled_from((["010200", "0182"], ["010600", "0186"], ["010900", "0189"]))),
                    "addr": 0, "reg": 0, "arg": 0, "payload": draw(content(n))}
        kind = draw(st.sampled_from(("read", "write", "write_multi")))
        case = {"framing": framing, "kind": kind, "addr": addr if framing != "aa55" else 0, "reg": reg}
        if kind == "read":
            case["arg"] = draw(st.integers(1, 125))
            case["payload"] = draw(content(2 * case["arg"]))
        elif kind == "write":
            case["arg"] = draw(st.one_of(st.sampled_from((-32768, -1, 0, 1, 32767)), st.integers(-32768, 32767)))
            case["payload"] = b"\x06"
        else:
            k = 4 if framing == "aa55" else draw(st.integers(1, 123))
            case["arg"] = draw(st.binary(min_size=2 * k, max_size=2 * k))
            case["payload"] = b"\x06"
        if framing == "rtu" and draw(st.booleans()):
            case["trailing"] = draw(st.binary(min_size=1, max_size=300))
        return case

    def body(case):
        acc.cls("hyp|%s|%s" % (case["framing"], case["kind"] if isinstance(case["kind"], str) else "fixed"))
        if len(acc.samples) < 3:
            acc.sample(case)
        fails = check_frame(acc, case)
        if not fails and (hash(repr(case)) % 2 == 0 or b"\xaa\x55" in case.get("payload", b"")):
            fails = check_e2e(acc, dict(case, keep=bool(hash(repr(case)) & 8)))
        return fails

    harness.hyp_search(acc, body, [cases()], seed=seed, max_examples=n)
    return acc


def es_vendor_responses(acc: Acc):
    """Every AA55 command object the ES class builds (harvested by driving its methods with a recording stub) must accept
    the conforming acknowledgement: response type = command | 0x80 (vendor exceptions as transcribed in vlib/siminv.py)."""
    import goodwe
    from goodwe.es import ES
    from goodwe.inverter import OperationMode
    from goodwe.protocol import ProtocolResponse
    from vlib import siminv
    from vlib.harness import run_sync
    sent = []

    def mk(fw):
        inv = ES("192.0.2.1", 8899)

        async def fake(command):
            sent.append(command)
            return ProtocolResponse(bytes(7) + bytes.fromhex("300030000064000000640000") + bytes(2), command)
        inv._read_from_socket = fake
        inv.serial_number, inv.arm_version, inv.dsp1_version = "95048ESU000W0000", fw, 22
        return inv

    for fw in (0, 7, 14):
        inv = mk(fw)
        for mode in (0, 1, 2, 3, 98, 99):
            try:
                run_sync(inv.set_operation_mode(OperationMode(mode), 40, 80))
            except Exception:
                pass
        for coro in (inv.set_grid_export_limit(1234), inv.set_ongrid_battery_dod(30), inv._reset_inverter(), inv.read_device_info(),
                     inv.read_runtime_data(), inv.read_settings_data(), inv.write_setting("eco_mode_2_switch", 0),
                     inv.read_setting("eco_mode_1")):
            try:
                run_sync(coro)
            except Exception:
                pass
    seen = set()
    for cmd in sent:
        req = cmd.request_bytes()
        if req[:2] != b"\xaa\x55" or req in seen:
            continue
        seen.add(req)
        code = req[4:6]
        rtype = siminv.AA55_ACK_TYPES.get(code, bytes((code[0], code[1] | 0x80)))
        for payload in ((b"\x06",) if code[0] != 1 else (bytes(16), b"\xff" * 86)):
            frame = rw.aa55_response(rtype, payload)
            acc.case()
            acc.nontrivial("es-vendor", req, payload)
            case = {"es_vendor": True, "request": req, "frame": frame}
            try:
                ok = cmd.validator(frame)
            except Exception as ex:
                acc.fail("C02|aa55|es-vendor|validator-raised|%s" % type(ex).__name__, "%r for %s" % (ex, frame.hex()), case)
                continue
            if ok is not True:
                acc.fail("C02|aa55|es-vendor|refused|%s" % code.hex(), "conforming acknowledgement %s to the ES command %s is refused" % (frame.hex(), req.hex()), case)
    acc.cls("es_vendor_commands", len(seen))


def history_job(job):
    """A conforming answer must be accepted whatever an EARLIER request on the same protocol object received: here the
    earlier request got a first fragment followed by the complete frame, so that a fragment of every possible 'missing'
    length is left behind; the request under test is then answered promptly with conforming frames of every short length."""
    transport, keep = job
    acc = Acc()
    framing = {"udp": "rtu", "tcp": "tcp"}[transport]
    long_cmd = ("read", 35100, 8)
    Flong, _ = conforming(framing, "read", 0xF7, 35100, 8, _payload("pattern", 16, 3))
    hdr = 5 if transport == "udp" else 9
    for cut in range(hdr, len(Flong)):
        for count in range(1, 9):
            payload = _payload(("ff", "pattern", "markers")[count % 3], 2 * count, count)
            Fshort, _ = conforming(framing, "read", 0xF7, 36000, count, payload)
            # the second answer arrives promptly, or late but inside its own time-out (also later than the time-out of the
            # earlier request would have expired had it not been answered); the earlier request is answered by fragment +
            # complete frame, or by fragment + exact remainder
            delay = (1, 1, 13, 15)[(cut + count) % 4]
            first = [[2, Flong[:cut]], [4, Flong]] if (cut + count) % 3 else [[2, Flong[:cut]], [4, Flong[cut:]]]
            steps = [{"op": "request", "script": [["multi", first]], "command": long_cmd},
                     {"op": "request", "script": [["raw", delay, Fshort]], "command": ("read", 36000, count)}]
            case = {"history": True, "transport": transport, "keep": keep, "cut": cut, "count": count}
            acc.case()
            acc.nontrivial("history", transport, keep, cut, count)
            results, world, errors, protocol = netcase.run_sequence({"transport": transport, "keep": keep, "T": 1.0, "R": 0, "latency": 0, "steps": steps})
            second = results[-1]
            if results[0].kind != "ok":
                continue
            if second.kind != "ok" or len(second.tx) != 1 or second.result.raw_data != Fshort:
                acc.fail("C02|%s|read|refused|after-fragmented-request" % framing,
                         "conforming %d-byte answer to the second request refused (%s, %d transmissions) after the first request had left a "
                         "fragment with %d missing bytes behind" % (len(Fshort), second.kind, len(second.tx), len(Flong) - cut), case)
    return acc


def run(ctx):
    from vlib import concur
    concur.register(ctx, "C02")
    ctx.shard(history_job, [(t, k) for t in ("udp", "tcp") for k in (False, True)],
              "conforming answers after an earlier request that left a fragment of every length behind (same protocol object)")
    es_vendor_responses(ctx.acc)
    ctx.engines.append("every AA55 command object built by the ES class vs. its conforming acknowledgement")
    jobs = [("read", lo, min(126, lo + 8)) for lo in range(1, 126, 8)]
    jobs += [("aa55len", lo, min(256, lo + 16)) for lo in range(0, 256, 16)]
    step = 4096 if ctx.quick else 1024
    jobs += [("write", lo, lo + step) for lo in range(-32768, 32768, step)] if not ctx.quick else \
        [("write", lo, lo + 512) for lo in range(-32768, 32768, 4096)] + [("write", -256, 256)]
    jobs += [("multi", 2, 248)]
    ctx.shard(enum_job, jobs, "enumeration: every read count, every AA55 length, write values, multi lengths x content classes")
    ctx.exhaustive_parts.append("read counts 1..125 and AA55 payload lengths 0..255 x 5 content classes; all even write-multi lengths"
                                + ("" if ctx.quick else "; every write value -32768..32767"))
    n = ctx.pick(8000, 160000)
    ctx.shard(hyp_job, [(ctx.seed * 1000 + i, n // 16) for i in range(16)], "hypothesis joint sampling (validator + at least half end-to-end, marker-biased contents)")


def replay(ctx, case):
    if isinstance(case, dict) and case.get("overlap") and "callers" in case:
        from vlib import concur
        concur.replay(ctx.acc, case, concur.INVARIANTS["C02"], "C02")
        return
    if case.get("history"):
        ctx.acc.merge(history_job((case["transport"], case["keep"])))
        return
    if case.get("es_vendor"):
        es_vendor_responses(ctx.acc)
        return
    if case.get("e2e") or "keep" in case:
        _apply(ctx.acc, case, check_e2e)
    _apply(ctx.acc, case)
