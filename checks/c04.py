"""C04 - every request terminates after at most retries+1 transmissions.

Real UdpInverterProtocol / TcpInverterProtocol objects are driven on the virtual-clock loop against a scripted
peer; fault scripts are enumerated exhaustively to depth retries+1 <= 3 on a fixed delay palette and sampled
by Hypothesis for deeper / free-delay cases.
"""
from __future__ import annotations

import itertools

from vlib import harness, netcase
from vlib.harness import Acc

LEVEL = "fault_enumeration"
RULE = ("case = (transport in {RTU/UDP, AA55/UDP, Modbus/TCP}, keep-alive, timeout, retries, per-transmission fault "
        "script, TCP connect outcomes, connect latency); exhaustive over all scripts of length retries+1 <= 3 from a "
        "15-action palette (13 of the property + exact tie + restarted fragment) (and connect-outcome scripts x a 5-action palette on TCP), Hypothesis-sampled for retries "
        "<= 6 with free delays on a T/16 grid. Non-trivial = script contains at least one action other than a valid "
        "answer in time (or a non-ok connect outcome); distinct by (configuration, script). Each case "
        "runs through ProtocolCommand.execute on a bare protocol object or (flag api) through an inverter object's _read_from_socket.")
ASSUMPTIONS = [
    "vlib/vloop.py models the asyncio transport/protocol callback contract of CPython 3.12 selector_events.py, not "
    "the kernel: real sockets, DNS and ICMP timing are out of scope",
    "a send that fails with an OS error counts as a transmission attempt",
    "delays are multiples of timeout/16; deliveries exactly at a timeout (ties with the timer) ARE generated: either order is "
    "accepted, the bounds on transmissions / completion time must hold regardless (a real defect was found this way)",
]
EXHAUSTIVE = None

EPS = 1e-9
OK_OUTCOMES = ("ok", "RequestRejectedException", "RequestFailedException", "MaxRetriesException")


def palette(transport):
    """The 13 actions of the property's alphabet with fixed delays (ticks of T/16) + an answer exactly at the timeout (tie)."""
    closes = ["eof", 4] if transport == "tcp" else ["recverr", 4, "ECONNREFUSED"]
    return [
        ["drop"], ["answer", 0], ["answer", 8], ["answer", 24], ["answer", 16], ["garbage", 4], ["short", 4], ["bad", 4],
        ["exc", 4, 2], ["frag", 9, 4, 8], ["lone", 9, 4], ["dup", 4, 8], closes, ["senderr", "ECONNREFUSED"],
        ["pieces", [["head", 9, 2], ["head", 11, 5]]],   # a fragment, then the inverter starts its answer over (restarted fragment)
    ]


SMALL = [["drop"], ["answer", 2], ["garbage", 4], ["eof", 4], ["senderr", "ECONNREFUSED"]]


def is_trivial(case):
    if any(c != "ok" for c in case.get("connect", [])):
        return False
    s = case["script"]
    return bool(s) and s[0][0] == "answer" and s[0][1] < netcase.TICKS


def check_case(acc: Acc, case):
    """Run one request and apply the oracle. Returns list of (key, msg, case)."""
    acc.case()
    transport, T, R = case["transport"], case["T"], case["R"]
    if not is_trivial(case):
        acc.nontrivial(transport, case.get("keep"), T, R, repr(case["script"]), repr(case.get("connect")),
                       case.get("latency", 0), case.get("api", False), case.get("host"), repr(case.get("payload")))
    payload_fn = None
    if case.get("payload") and transport == "aa55":
        # answers at the edges of the frame format: maximal payload length, all 0xFF (byte sum beyond 16 bits), all zero
        fill, n = case["payload"]
        payload_fn = (lambda cmd, payload, fill=fill, n=n: bytes((fill,)) * n)
    obs = netcase.run_single(case, payload_fn=payload_fn)
    out = obs.outcome
    fails = []
    kind = out.kind()
    cfg = transport
    acc.cls("outcome|%s|%s" % (transport, kind))
    if out.hang is not None:
        fails.append(("C04|%s|hang" % cfg, "request never completes: %s" % out.hang, case))
        return fails
    if kind not in OK_OUTCOMES:
        fails.append(("C04|%s|outcome-type|%s" % (cfg, kind), "execute() ended with %r" % (out.exc,), case))
    ntx = len(obs.tx)
    if ntx > R + 1:
        fails.append(("C04|%s|too-many-transmissions" % cfg,
                      "%d transmissions with retries=%d at %s" % (ntx, R, [t for t, *_ in obs.tx]), case))
    if len(obs.connects) > R + 1:
        fails.append(("C04|%s|too-many-connects" % cfg,
                      "%d connect attempts with retries=%d" % (len(obs.connects), R), case))
    # completion no later than one timeout after the last event (transmission / delivery / connect attempt)
    bound = obs.t0
    for t, _tid, _d, _f in obs.tx:
        bound = max(bound, t + T)
    for t, _tid, _i, _d, ok, _fl in obs.deliveries:
        if t <= obs.t_end + EPS:
            bound = max(bound, t + T)
    for t, outcome in obs.connects:
        bound = max(bound, t + (5.0 if outcome == "hangs" else 0.0))
    if obs.t_end > bound + EPS:
        fails.append(("C04|%s|late-completion" % cfg,
                      "completed at %r, last event + timeout = %r" % (obs.t_end, bound), case))
    # silent peer: exactly R+1 identical transmissions spaced T, failure at (R+1)*T
    if all(a[0] == "drop" for a in case["script"]) and all(c == "ok" for c in case.get("connect", [])):
        times = [t for t, *_ in obs.tx]
        want = [i * T for i in range(R + 1)]
        if len(times) != R + 1 or any(abs(a - b) > EPS for a, b in zip(times, want)):
            fails.append(("C04|%s|silent-schedule" % cfg, "transmissions at %s, expected %s" % (times, want), case))
        elif any(not netcase.same_request(transport, obs.tx[0][2], e[2]) for e in obs.tx):
            fails.append(("C04|%s|silent-not-identical" % cfg, "retransmissions differ", case))
        if abs(obs.t_end - (R + 1) * T) > EPS:
            fails.append(("C04|%s|silent-failure-time" % cfg,
                          "failure reported at %r, expected %r" % (obs.t_end, (R + 1) * T), case))
        if kind not in ("MaxRetriesException", "RequestFailedException"):
            fails.append(("C04|%s|silent-outcome" % cfg, "silent peer gave outcome %s" % kind, case))
    return fails


def _apply(acc, case):
    for key, msg, c in check_case(acc, case):
        acc.fail(key, msg, c)


def _apply_seq(acc, case):
    transport, T, R = case["transport"], case["T"], case["R"]
    acc.case()
    acc.nontrivial("seq", transport, case.get("keep"), T, R, repr(case["steps"]))
    results, world, errors, protocol = netcase.run_sequence(case)
    reqs = [r for r in results if r.kind != "closed"]
    if len(reqs) < 2:
        return
    last = reqs[-1]
    if last.hang is not None or last.kind.startswith("harness"):
        acc.fail("C04|%s|after-prior|hang" % transport, "second request never completes: %r %r" % (last.hang, last.exc), case)
        return
    if last.kind not in OK_OUTCOMES:
        acc.fail("C04|%s|after-prior|outcome-type|%s" % (transport, last.kind), "execute() ended with %r" % (last.exc,), case)
    if len(last.tx) > R + 1:
        acc.fail("C04|%s|after-prior|too-many-transmissions" % transport, "%d transmissions with retries=%d" % (len(last.tx), R), case)
    first_idx = len(world.tx) - len(last.tx)
    # something the peer still had on its way for the FIRST request reached the client while a transmission of the second one was
    # in flight (also at the very instant the second request started): then the second request is not facing a silent inverter
    disturbed = any(d[5] >= first_idx for d in world.deliveries) or any(last.t0 + EPS < d[0] <= last.t_end + EPS for d in world.deliveries)
    if disturbed or last.connects and any(o != "ok" for _t, o in last.connects):
        acc.cls("after-prior|stale-delivery-during-second")
        return
    times = [t - last.t0 for t, *_ in last.tx]
    want = [i * T for i in range(R + 1)]
    if len(times) != R + 1 or any(abs(a - b) > EPS for a, b in zip(times, want)):
        acc.fail("C04|%s|after-prior|silent-schedule" % transport, "after a first request scripted %s the silent second request was transmitted at %s, expected %s" % (
            case["steps"][0]["script"], times, want), case)
    elif abs(last.t_end - last.t0 - (R + 1) * T) > EPS:
        acc.fail("C04|%s|after-prior|silent-failure-time" % transport, "failure reported after %r, expected %r" % (last.t_end - last.t0, (R + 1) * T), case)
    elif last.kind not in ("MaxRetriesException", "RequestFailedException"):
        acc.fail("C04|%s|after-prior|silent-outcome" % transport, "silent peer gave outcome %s" % last.kind, case)


# ---------------------------------------------------------------------------------------------
def enum_job(job):
    transport, keep, T, R, mode = job
    acc = Acc()
    if mode == "exc-codes":
        # every defined exception code (and a few undefined ones) on every transmission index: the request ends at once, whatever the code
        for code in (1, 2, 3, 4, 5, 6, 7, 8, 10, 11, 0, 9, 16, 17, 128, 255):
            for idx in range(R + 1):
                for d in (0, 4, 15):
                    case = {"transport": transport, "keep": keep, "T": T, "R": R, "script": [["drop"]] * idx + [["exc", d, code]], "latency": 0}
                    _apply(acc, case)
                    _apply(acc, dict(case, api=True))
        return acc
    if mode == "after-prior":
        # the request under test is the SECOND one on the object: whatever happened to the first (every script of length
        # R+1), a silent inverter still sees exactly R+1 transmissions spaced T and the failure one timeout after the last
        pal = palette(transport)
        for script in itertools.product(pal, repeat=R + 1):
            for gap in ("idle", None):
                steps = [{"op": "request", "script": [list(a) for a in script]}]
                if gap:
                    steps.append({"op": gap})
                steps.append({"op": "request", "script": [], "command": ["aa55", "010200", "0182"] if transport == "aa55" else ["read", 36000, 7]})
                case = {"transport": transport, "keep": keep, "T": T, "R": R, "latency": 0, "steps": steps, "sequence": True}
                _apply_seq(acc, case)
        return acc
    if mode == "extreme-payload":
        for payload in ([0xFF, 255], [0xFF, 254], [0xFE, 255], [0x00, 255], [0xFF, 200], [0x80, 255]):
            for script in ([["answer", 2]], [["drop"], ["answer", 2]], [["bad", 4], ["answer", 2]], [["frag", 9, 2, 6]], [["frag", 200, 2, 6]], [["dup", 2, 5]],
                           [["garbage", 3], ["answer", 14]]):
                case = {"transport": transport, "keep": keep, "T": T, "R": R, "script": script, "latency": 0, "payload": payload}
                _apply(acc, case)
                _apply(acc, dict(case, api=True))
        return acc
    if mode == "cuts":
        # every length of a first piece (1..16 bytes: shorter than, equal to and longer than each framing's header), alone,
        # followed by the remainder, or followed by a restart - on the first transmission and on a retransmission
        for cut in range(1, 17):
            for act in (["lone", cut, 2], ["frag", cut, 2, 5], ["pieces", [["head", cut, 2], ["head", cut + 1, 4]]], ["pieces", [["head", cut, 1], ["full", 3]]]):
                for idx in range(R + 1):
                    case = {"transport": transport, "keep": keep, "T": T, "R": R, "script": [["drop"]] * idx + [act], "latency": 0}
                    _apply(acc, case)
                    _apply(acc, dict(case, api=True))
        return acc
    if mode in ("scripts", "scripts-api"):
        pal = palette(transport)
        for script in itertools.product(pal, repeat=R + 1):
            case = {"transport": transport, "keep": keep, "T": T, "R": R, "script": [list(a) for a in script],
                    "latency": 0}
            if mode == "scripts-api":
                case["api"] = True      # through an inverter object (Inverter._read_from_socket) instead of the bare protocol
            _apply(acc, case)
            if R == 2 and len(acc.samples) < 2 and script[0][0] not in ("answer", "drop"):
                acc.sample(case)
    else:  # TCP connect scripts x small palette
        n = R + 1
        for connect in itertools.product(("ok", "refused", "unreachable", "hangs"), repeat=n):
            if all(c == "ok" for c in connect):
                continue
            for script in itertools.product(SMALL, repeat=n):
                case = {"transport": "tcp", "keep": keep, "T": T, "R": R, "script": [list(a) for a in script],
                        "connect": list(connect), "latency": 1}
                _apply(acc, case)
                if len(acc.samples) < 1 and connect[0] == "hangs":
                    acc.sample(case)
    return acc


def hyp_job(job):
    seed, n = job
    from hypothesis import strategies as st
    acc = Acc()
    tick_in = st.integers(0, 15)
    tick_late = st.integers(17, 40)
    tick_any = st.one_of(tick_in, tick_late, st.sampled_from((16, 32)))  # incl. exact ties with a timeout timer
    errn = st.sampled_from(("ECONNREFUSED", "ECONNREFUSED", "ENETUNREACH", "EHOSTUNREACH"))
    cut = st.integers(1, 30)

    def action(transport):
        closes = st.tuples(st.just("eof"), tick_any) if transport == "tcp" else st.tuples(
            st.just("recverr"), tick_any, errn)
        return st.one_of(
            st.just(("drop",)), st.tuples(st.just("answer"), tick_in), st.tuples(st.just("answer"), tick_late),
            st.tuples(st.just("garbage"), tick_any), st.tuples(st.just("short"), tick_any),
            st.tuples(st.just("bad"), tick_any), st.tuples(st.just("exc"), tick_any, st.one_of(st.integers(0, 255), st.sampled_from((1, 2, 3, 4, 5, 6, 7, 8, 10, 11)))),
            st.tuples(st.just("frag"), cut, tick_any, tick_any), st.tuples(st.just("lone"), cut, tick_any),
            st.tuples(st.just("dup"), tick_any, tick_any), closes, st.tuples(st.just("senderr"), errn),
            st.lists(st.one_of(st.tuples(st.sampled_from(("head", "tail")), cut, tick_any).map(list),
                               st.tuples(st.sampled_from(("full", "garbage")), tick_any).map(list)), min_size=1, max_size=4).map(
                lambda ps: ("pieces", sorted(ps, key=lambda p: p[-1]))),
        ).map(list)

    @st.composite
    def cases(draw):
        transport = draw(st.sampled_from(("udp", "aa55", "tcp")))
        R = draw(st.integers(0, 6))
        case = {"transport": transport, "keep": draw(st.booleans()), "T": draw(st.sampled_from((0.5, 1.0, 2.0, 4.0, 5.0, 8.0, 30.0))),
                "R": R, "script": draw(st.lists(action(transport), min_size=0, max_size=R + 2)),
                "latency": draw(st.integers(0, 3)), "api": draw(st.booleans()),
                "host": draw(st.sampled_from(netcase.HOSTS[:1] * 3 + netcase.HOSTS))}
        if transport == "tcp":
            case["connect"] = draw(st.lists(st.sampled_from(("ok", "ok", "refused", "unreachable", "hangs", "timeout", "hostunreach", "gaierror", "multiple")),
                                            max_size=R + 1))
        elif draw(st.integers(0, 5)) == 0:     # opening the UDP socket fails (routing / name resolution)
            case["connect"] = draw(st.lists(st.sampled_from(("ok", "unreachable", "gaierror", "hostunreach")), min_size=1, max_size=R + 1))
        return case

    def body(case):
        for a in case["script"]:
            acc.cls("action|" + a[0])
        if len(acc.samples) < 3:
            acc.sample(case)
        return check_case(acc, case)

    harness.hyp_search(acc, body, [cases()], seed=seed, max_examples=n)
    return acc


def run(ctx):
    from vlib import concur
    concur.register(ctx, "C04")
    jobs = []
    for transport in ("udp", "aa55", "tcp"):
        for keep in (False, True):
            for T in ((1.0,) if ctx.quick else (0.5, 1.0, 4.0)):
                for R in (0, 1, 2):
                    jobs.append((transport, keep, T, R, "scripts"))
    for transport in ("udp", "aa55", "tcp"):
        for keep in (False, True):
            for R in (0, 1):
                jobs.append((transport, keep, 1.0, R, "scripts-api"))
    for transport in ("udp", "tcp"):
        for keep in (False, True):
            jobs.append((transport, keep, 1.0, 2, "exc-codes"))
    for transport in ("udp", "aa55", "tcp"):
        for keep in (False, True):
            for R in (1, 2) if not ctx.quick else (1,):
                jobs.append((transport, keep, 1.0, R, "after-prior"))
    for transport in ("udp", "aa55", "tcp"):
        for keep in (False, True):
            jobs.append((transport, keep, 1.0, 1, "cuts"))
    for keep in (False, True):
        jobs.append(("aa55", keep, 1.0, 2, "extreme-payload"))
    for keep in (False, True):
        for R in (0, 1, 2):
            jobs.append(("tcp", keep, 1.0, R, "connect"))
        for R in (0, 1):   # request timeout above the 5 s connect bound: the two bounds must stay separate
            jobs.append(("tcp", keep, 8.0, R, "connect"))
    if not ctx.quick:
        for transport in ("udp", "tcp"):
            jobs.append((transport, True, 1.0, 3, "scripts"))  # depth 4: 28,561 scripts each
    jobs.sort(key=lambda j: -j[3])
    ctx.shard(enum_job, jobs, "exhaustive fault scripts to depth retries+1 (15-action palette (13 of the property + exact tie + restarted fragment); TCP connect outcomes x 5 actions)")
    ctx.exhaustive_parts.append("all 15^(R+1) scripts for R in 0..2 per transport/keep-alive; all non-ok TCP connect "
                                "scripts of length R+1 x 5^(R+1) action scripts" + ("" if ctx.quick else "; depth 4 on UDP/TCP keep-alive"))
    n = ctx.pick(4000, 60000)
    ctx.shard(hyp_job, [(ctx.seed * 1000 + i, n // 16) for i in range(16)], "hypothesis random scripts (retries <= 6, free delays)")


def replay(ctx, case):
    if isinstance(case, dict) and case.get("overlap") and "callers" in case:
        from vlib import concur
        concur.replay(ctx.acc, case, concur.INVARIANTS["C04"], "C04")
        return
    if case.get("sequence"):
        _apply_seq(ctx.acc, case)
        return
    _apply(ctx.acc, case)
