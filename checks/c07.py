"""C07 - a response split into two fragments is reassembled exactly."""
from __future__ import annotations

from vlib import harness, netcase, refwire as rw
from vlib.harness import Acc

LEVEL = "exploration"
RULE = ("case = (framing/transport, keep-alive, read count / AA55 payload length, per-transmission list of deliveries "
        "described symbolically: head(s), exact tail(s), tail +-n bytes, tail with a flipped bit, same-length garbage, a "
        "complete answer, tail/complete answer of another request; delays on a T/16 grid). All split points of the frame are "
        "enumerated for several counts and four timings (positive oracle); negative and cross-transmission cases are "
        "enumerated on a grid and sampled by Hypothesis. Non-trivial = a delivery list with a split (two non-empty pieces); "
        "distinct by the whole case. Further dimensions: payload content class (pattern / envelope markers / 0xFF), inconsistent MBAP "
        "length field on Modbus/TCP, bare protocol vs. inverter object (flag api), a second split request after a split request.")
ASSUMPTIONS = [
    "positive oracle demands success only when BOTH pieces arrive before transmission time + timeout",
    "a result equal to head + foreign bytes that happens to be a checksum-valid frame (2^-16 coincidence) is counted as "
    "class crc-coincidence, not as violation, when the independent validator N accepts it",
    "virtual-clock loop / in-memory transports (vlib/vloop.py); every delivered piece is labelled with the transmission that was in flight when it was received",
]
EPS = 1e-9
MIN_HEADER = {"udp": 5, "aa55": 9, "tcp": 9}
REG = 35100


MARKERS = b"\xaa\x55\x7f\xc0\xaa\x55\xc0\x7f\xf7\x03\x06\xaa\x55\xf7\x83\x02\x01\x86\xff\xff"
CONTENT = "pattern"  # module-level switch set per case (content class of the payload)
AA55_READ = False    # AA55 only: use the Aa55ReadCommand class (register read, response type 019A) instead of the plain runtime-data command
MBAP = None          # Modbus/TCP only: value put into the MBAP length field of the answers (None = the consistent one).  GoodWe
                     # firmware is known to send inconsistent MBAP lengths; the library documents that it ignores the field (D1),
                     # so such an answer is a valid frame whether it arrives in one piece or two


def payload_for(reg, n):
    if CONTENT == "markers":  # envelope markers / headers / function codes inside the payload
        k = reg % len(MARKERS)
        return ((MARKERS[k:] + MARKERS) * (n // len(MARKERS) + 2))[:n]
    if CONTENT == "ff":
        return b"\xff" * n
    return bytes(((reg * 7 + i * 3 + 1) & 0xFF) for i in range(n))


def frames(transport, count):
    """(command spec, valid frame F for our request, valid frame F2 of 'another request' with the same length)."""
    if transport == "udp":
        return ("read", REG, count), rw.rtu_read_response(0xF7, payload_for(REG, 2 * count)), \
            rw.rtu_read_response(0xF7, payload_for(REG + 1, 2 * count))
    if transport == "tcp":
        fa, fb = rw.tcp_read_response(0x1234, 0xF7, payload_for(REG, 2 * count)), rw.tcp_read_response(0x1235, 0xF7, payload_for(REG + 1, 2 * count))
        if MBAP is not None:
            fa, fb = (f[:4] + (MBAP & 0xFFFF).to_bytes(2, "big") + f[6:] for f in (fa, fb))
        return ("read", REG, count), fa, fb
    if AA55_READ:
        # the library's AA55 register read command (ES settings registers): count // 2 registers, payload 2 x that
        n = max(1, min(125, count // 2))
        return ("aa55read", 0x701, n), rw.aa55_response(b"\x01\x9a", payload_for(REG, 2 * n)), rw.aa55_response(b"\x01\x9a", payload_for(REG + 1, 2 * n))
    # AA55: runtime data read, payload length = count (0..255)
    return ("aa55", "010600", "0186"), rw.aa55_response(b"\x01\x86", payload_for(REG, count)), \
        rw.aa55_response(b"\x01\x86", payload_for(REG + 1, count))


def resolve(spec, F, F2):
    k = spec[0]
    if k == "head":
        return F[:spec[1]]
    if k == "tail":
        return F[spec[1]:]
    if k == "tail_plus":
        return F[spec[1]:] + bytes(range(1, spec[2] + 1))
    if k == "tail_minus":
        return F[spec[1]:len(F) - spec[2]]
    if k == "tail_flip":
        t = bytearray(F[spec[1]:])
        if not t:
            return b""
        bit = spec[2] % (8 * len(t))
        t[bit // 8] ^= 1 << (bit % 8)
        return bytes(t)
    if k == "garbage":
        return bytes(((spec[2] + 31 * i) & 0xFF) for i in range(spec[1]))
    if k == "full":
        return F
    if k == "other_tail":
        return F2[spec[1]:]
    if k == "other_full":
        return F2
    if k == "other_head":
        return F2[:spec[1]]
    raise ValueError(spec)


def check_case(acc: Acc, case):
    global CONTENT, MBAP, AA55_READ
    CONTENT = case.get("content", "pattern")
    MBAP = case.get("mbap")
    AA55_READ = bool(case.get("aa55read"))
    acc.case()
    transport, T, R, count = case["transport"], case["T"], case["R"], case["count"]
    cmd, F, F2 = frames(transport, count)
    MBAP = None
    AA55_READ = False
    script = []
    split = False
    labelled = []  # per transmission: list of (ticks, bytes, spec)
    for deliveries in case["tx"]:
        pieces = []
        closes = []
        for ticks, spec in deliveries:
            if spec[0] == "eof":          # the peer closes the connection (TCP) / an ICMP error arrives (UDP) at that tick
                closes.append(ticks)
                continue
            b = resolve(spec, F, F2)
            if b:
                pieces.append((ticks, b, spec))
        labelled.append(pieces)
        act = ["multi", [[t, b] for t, b, _ in pieces]] if pieces else ["drop"]
        if closes:
            act = ["combo", [act] + [(["eof", t] if transport == "tcp" else ["recverr", t, "ECONNREFUSED"]) for t in closes]]
        script.append(act)
        if len(pieces) >= 2:
            split = True
    if split:
        acc.nontrivial(transport, case["keep"], T, R, count, repr(case["tx"]), CONTENT, case.get("mbap"), case.get("api", False), bool(case.get("aa55read")), case.get("host"))
    c = {"transport": transport, "keep": case["keep"], "T": T, "R": R, "script": script, "latency": case.get("latency", 0), "api": case.get("api", False),
         "host": case.get("host", "192.0.2.1")}
    obs = netcase.run_single(c, command=cmd)
    out = obs.outcome
    fails = []
    if out.hang is not None:
        return [("C07|%s|hang" % transport, str(out.hang), case)]
    acc.cls("outcome|%s|%s" % (transport, out.kind()))
    # ---- positive: head(s>=min) + exact tail, both before t_tx + T, on the first transmission -------------------
    first = labelled[0] if labelled else []
    if len(first) == 2 and first[0][2][0] == "head" and first[1][2] == ["tail", first[0][2][1]] \
            and first[0][2][1] >= MIN_HEADER[transport] and first[0][0] <= first[1][0] < netcase.TICKS \
            and first[0][2][1] < len(F):
        if out.kind() != "ok":
            fails.append(("C07|%s|exact-remainder-not-reassembled" % transport,
                          "split at %d of %d, pieces at +%d/+%d ticks: outcome %s, %d transmissions" % (
                              first[0][2][1], len(F), first[0][0], first[1][0], out.kind(), len(obs.tx)), case))
        else:
            if out.result.raw_data != F:
                fails.append(("C07|%s|reassembled-bytes-differ" % transport,
                              "result %s != unsplit frame %s" % (out.result.raw_data.hex(), F.hex()), case))
            if len(obs.tx) != 1:
                fails.append(("C07|%s|retransmitted-despite-remainder" % transport, "%d transmissions" % len(obs.tx), case))
    # ---- positive, second transmission: the first one only produced a STALE first fragment that arrives after its timeout
    # (during the second transmission, before that one's own pieces); the second is answered head + exact tail in time ------
    if len(labelled) >= 2 and len(labelled[0]) == 1 and len(labelled[1]) == 2 and transport != "tcp":
        st, a, b = labelled[0][0], labelled[1][0], labelled[1][1]
        if st[2][0] in ("head", "other_head") and MIN_HEADER[transport] <= st[2][1] < len(F) and netcase.TICKS < st[0] < netcase.TICKS + a[0] \
                and a[2][0] == "head" and b[2] == ["tail", a[2][1]] and MIN_HEADER[transport] <= a[2][1] < len(F) \
                and a[0] <= b[0] < netcase.TICKS and R >= 1:
            if out.kind() != "ok":
                fails.append(("C07|%s|exact-remainder-not-reassembled|after-stale-fragment" % transport,
                              "transmission 2 answered head(%d)+tail at +%d/+%d ticks after a stale %s(%d) of transmission 1 arrived at +%d: outcome %s, "
                              "%d transmissions" % (a[2][1], a[0], b[0], st[2][0], st[2][1], st[0], out.kind(), len(obs.tx)), case))
            elif out.result.raw_data != F or len(obs.tx) != 2:
                fails.append(("C07|%s|after-stale-fragment|wrong-result" % transport,
                              "%d transmissions, result %s the frame" % (len(obs.tx), "==" if out.result.raw_data == F else "!="), case))
    # ---- provenance of a successful result ---------------------------------------------------------------------
    if out.kind() == "ok":
        res = out.result.raw_data
        dl = [(t, inflight, data) for (t, tid, idx, data, ok, inflight) in obs.deliveries if ok and t <= obs.t_end + EPS]
        whole = any(data == res for _, _, data in dl)
        if not whole:
            origin = None
            pairs = [(dl[i], dl[j]) for i in range(len(dl)) for j in range(len(dl))
                     if i != j and dl[i][2] + dl[j][2] == res]
            same = [p for p in pairs if p[0][1] == p[1][1]]
            if same:
                origin = same[0] + (0, 0)
            elif pairs:
                origin = pairs[0] + (0, 0)
            if origin is None:
                fails.append(("C07|%s|result-not-from-deliveries" % transport,
                              "result %s is neither a delivered datagram nor a concatenation of two" % res.hex(), case))
            else:
                a, b, i, j = origin
                if a[1] != b[1]:
                    fails.append(("C07|%s|cross-transmission-combination" % transport,
                                  "result combines a piece received during transmission %d with one received during transmission %d" % (a[1], b[1]), case))
                elif transport in ("udp", "aa55") and len(res) > len(F) and (res.startswith(F) or res.startswith(F2)):
                    fails.append(("C07|%s|fragment-plus-longer-remainder-accepted" % transport,
                                  "result is a complete frame plus %d extra bytes, built from a fragment and a second piece that is "
                                  "longer than the exact remainder" % (len(res) - len(F)), case))
                elif transport in ("udp", "aa55") and res != F and res != F2:
                    nec = rw.necessary_rtu(rw.op_read(0xF7, REG, count), res) if transport == "udp" else \
                        rw.necessary_aa55(b"\x01\x86", res)
                    if nec is None:
                        acc.cls("crc-coincidence")
                    else:
                        fails.append(("C07|%s|fragment-plus-foreign-bytes-accepted" % transport,
                                      "result %s built from a fragment and foreign bytes (%s)" % (res.hex(), nec), case))
                elif transport in ("udp", "aa55") and res == F2 and a[2] != F2[:len(a[2])]:
                    fails.append(("C07|%s|fragment-plus-foreign-bytes-accepted" % transport, "mixed frames accepted", case))
    return fails


def check_after_prior(acc: Acc, case):
    """A first request on the same protocol object is itself answered in fragments (both in time); then the request under
    test gets a split answer with the exact remainder in time: it must be reassembled, with one transmission."""
    global CONTENT
    CONTENT = "pattern"
    acc.case()
    transport, T, R, count = case["transport"], case["T"], case["R"], case["count"]
    cmd, F, F2 = frames(transport, count)
    s1, a1, a2 = case["prior"]            # split point and the two delivery ticks of the prior request's answer
    s2, b1, b2 = case["split"]
    acc.nontrivial("after-prior", transport, case["keep"], T, R, count, tuple(case["prior"]), tuple(case["split"]), case.get("gap"), case.get("prior_kind"))
    kind = case.get("prior_kind", "exact")
    if kind == "then_full":        # the prior request got a first fragment and then the whole frame again: it succeeds, a fragment is left behind
        first = [["multi", [[a1, F[:s1]], [a2, F]]]]
    elif kind == "then_exc" and transport != "aa55":      # ... a first fragment and then an exception frame: it is rejected
        first = [["combo", [["multi", [[a1, F[:s1]]]], ["exc", a2, 2]]]]
    else:
        first = [["multi", [[a1, F[:s1]], [a2, F[s1:]]]]]
    steps = [{"op": "request", "script": first, "command": cmd}]
    if case.get("gap"):
        steps.append({"op": "sleep", "ticks": case["gap"]})
    steps.append({"op": "request", "script": [["multi", [[b1, F[:s2]], [b2, F[s2:]]]]], "command": cmd})
    full = {"transport": transport, "keep": case["keep"], "T": T, "R": R, "latency": 0, "steps": steps}
    results, world, errors, protocol = netcase.run_sequence(full)
    fails = []
    reqs = [r for r in results if r.kind != "closed"]
    if len(reqs) < 2 or reqs[-1].hang is not None:
        return [("C07|%s|after-prior|hang" % transport, "history does not complete", case)]
    first, second = reqs[0], reqs[-1]
    if first.kind != "ok" and kind == "exact":
        return []  # the prior request is only the history; its own reassembly is the subject of the single-request cases
    if second.kind != "ok":
        fails.append(("C07|%s|after-prior|exact-remainder-not-reassembled" % transport,
                      "second request on the same object (split at %d, pieces at +%d/+%d ticks, prior request split at %d +%d/+%d): outcome %s after %d transmissions" % (
                          s2, b1, b2, s1, a1, a2, second.kind, len(second.tx)), case))
    else:
        if second.result.raw_data != F:
            fails.append(("C07|%s|after-prior|reassembled-bytes-differ" % transport, "result differs from the unsplit frame", case))
        if len(second.tx) != 1:
            fails.append(("C07|%s|after-prior|retransmitted-despite-remainder" % transport,
                          "%d transmissions at %s" % (len(second.tx), second.times()), case))
    return fails


def prior_job(job):
    transport, keep, count = job
    acc = Acc()
    cmd, F, F2 = frames(transport, count)
    hdr = MIN_HEADER[transport]
    splits = sorted({hdr, hdr + 2, len(F) // 2, len(F) - 1} & set(range(hdr, len(F))))
    for s1 in splits:
        for (a1, a2) in ((2, 6), (0, 14), (5, 5)):
            for s2 in splits:
                for (b1, b2) in ((1, 3), (2, 15), (9, 14)):
                    for gap in (0, 3, 9):
                        case = {"after_prior": True, "transport": transport, "keep": keep, "T": 1.0, "R": 1, "count": count,
                                "prior": [s1, a1, a2], "split": [s2, b1, b2], "gap": gap}
                        for key, msg, c in check_after_prior(acc, case):
                            acc.fail(key, msg, c)
    # the prior request leaves a fragment behind (fragment + whole frame, fragment + exception frame); the request under test is split so
    # that its first piece is exactly as long as what the stale fragment was missing - and at other points
    for kind in ("then_full", "then_exc"):
        for s1 in splits:
            for s2 in sorted({len(F) - s1, hdr, len(F) // 2} & set(range(hdr, len(F)))):
                for gap in (0, 3):
                    case = {"after_prior": True, "transport": transport, "keep": keep, "T": 1.0, "R": 1, "count": count,
                            "prior": [s1, 2, 6], "split": [s2, 1, 4], "gap": gap, "prior_kind": kind}
                    for key, msg, c in check_after_prior(acc, case):
                        acc.fail(key, msg, c)
    if len(acc.samples) < 1:
        acc.sample(case)
    return acc


def check_queued(acc: Acc, case):
    """While the request under test is in flight (its answer arrives in two pieces, both in time), further callers queue
    up on the same protocol object - before the first piece, between the pieces or after them.  Queued callers must not
    disturb the reassembly: the request succeeds with the unsplit bytes after ONE transmission."""
    import asyncio
    from vlib.vloop import ScriptedPeer, VLoop, World
    global CONTENT
    CONTENT = "pattern"
    acc.case()
    transport, T, R, count = case["transport"], case["T"], case["R"], case["count"]
    cmd_spec, F, F2 = frames(transport, count)
    s, d1, d2 = case["split"]
    acc.nontrivial("queued", transport, case["keep"], T, R, count, tuple(case["split"]), tuple(case["others"]))
    peer = ScriptedPeer(netcase.make_responder(transport), netcase.to_actions([["multi", [[d1, F[:s]], [d2, F[s:]]]]], T), default=("answer", 2 * T / 16.0))
    world = World(peer)
    loop = VLoop(world, max_time=1e5)
    protocol = netcase.make_protocol(transport, T, R, case["keep"])
    out = {}

    async def first():
        try:
            out["first"] = ("ok", (await netcase.make_command(transport, protocol, cmd_spec).execute(protocol)).raw_data)
        except Exception as ex:
            out["first"] = (type(ex).__name__, None)

    async def other(i, ticks):
        await asyncio.sleep(netcase.secs(ticks, T) + 1e-6)
        spec = ("aa55", "010200", "0182") if transport == "aa55" else (("read", 36000 + i, 3), ("write", 47510, i))[i % 2]
        try:
            await netcase.make_command(transport, protocol, spec).execute(protocol)
            out[i] = "ok"
        except Exception as ex:
            out[i] = type(ex).__name__

    async def main():
        await asyncio.gather(first(), *[other(i, t) for i, t in enumerate(case["others"])])

    res = loop.run(main())
    loop.idle()
    loop.shutdown()
    if res.hang or res.exc:
        return [("C07|%s|queued|hang" % transport, "%r %r" % (res.hang, res.exc), case)]
    fails = []
    mine = [e for e in world.tx if netcase.same_request(transport, world.tx[0][2], e[2])]
    kind, data = out.get("first", ("missing", None))
    if kind != "ok":
        fails.append(("C07|%s|queued|exact-remainder-not-reassembled" % transport,
                      "split at %d, pieces at +%d/+%d ticks, other callers queued at +%s ticks: outcome %s, %d transmissions of the request" % (
                          s, d1, d2, case["others"], kind, len(mine)), case))
    elif data != F:
        fails.append(("C07|%s|queued|reassembled-bytes-differ" % transport, "result differs from the unsplit frame", case))
    elif len(mine) != 1:
        fails.append(("C07|%s|queued|retransmitted-despite-remainder" % transport,
                      "split at %d, pieces at +%d/+%d ticks, other callers queued at +%s ticks: %d transmissions of the request" % (
                          s, d1, d2, case["others"], len(mine)), case))
    return fails


def queued_job(job):
    transport, keep, count = job
    acc = Acc()
    cmd, F, F2 = frames(transport, count)
    hdr = MIN_HEADER[transport]
    splits = sorted({hdr, hdr + 2, len(F) // 2, len(F) - 1} & set(range(hdr, len(F))))
    for s in splits:
        for (d1, d2) in ((2, 8), (0, 14), (5, 5), (3, 15)):
            for others in ((1,), (4,), (d1,), (d2,), (1, 4), (4, 4, 6), (9, 12)):
                case = {"queued": True, "transport": transport, "keep": keep, "T": 1.0, "R": 1, "count": count,
                        "split": [s, d1, d2], "others": list(others)}
                for key, msg, c in check_queued(acc, case):
                    acc.fail(key, msg, c)
    if len(acc.samples) < 1:
        acc.sample(case)
    return acc


def _apply(acc, case):
    if case.get("queued"):
        for key, msg, c in check_queued(acc, case):
            acc.fail(key, msg, c)
        return
    if case.get("after_prior"):
        for key, msg, c in check_after_prior(acc, case):
            acc.fail(key, msg, c)
        return
    for key, msg, c in check_case(acc, case):
        acc.fail(key, msg, c)


def counts_for(transport, quick):
    if transport == "aa55":
        return (1, 16, 140, 255) if quick else (0, 1, 2, 16, 64, 140, 200, 255)
    return (1, 2, 33, 125) if quick else tuple(range(1, 126))


def positive_job(job):
    global CONTENT
    transport, keep, count, T, R = job
    acc = Acc()
    for content in ("pattern", "markers", "ff"):
        CONTENT = content
        cmd, F, F2 = frames(transport, count)
        for s in range(1, len(F)):
            for d1, d2 in ((2, 2), (2, 8), (0, 15), (2, 20), (14, 15)) if content == "pattern" else ((2, 8),):
                case = {"transport": transport, "keep": keep, "T": T, "R": R, "count": count, "content": content,
                        "tx": [[[d1, ["head", s]], [d2, ["tail", s]]]]}
                _apply(acc, case)
                if (d1, d2) == (2, 8) and content == "pattern":
                    # the inverter is addressed by name / by another spelling of its address (the peer's datagrams carry the numeric one)
                    for host in netcase.HOSTS[1:]:
                        _apply(acc, dict(case, host=host))
    CONTENT = "pattern"
    if transport == "aa55" and count >= 2:
        # the same with the library's AA55 register-read command class (its own validator parameters)
        global AA55_READ
        AA55_READ = True
        cmd, F, F2 = frames(transport, count)
        AA55_READ = False
        for s in range(1, len(F)):
            for d1, d2 in ((2, 8), (0, 15)):
                _apply(acc, {"transport": transport, "keep": keep, "T": T, "R": R, "count": count, "aa55read": True,
                             "tx": [[[d1, ["head", s]], [d2, ["tail", s]]]]})
    cmd, F, F2 = frames(transport, count)
    if transport == "tcp":   # inconsistent MBAP length fields (firmware quirk the library tolerates), every split point
        for mbap in (6, 0, 0xFFFF, len(F) - 5, len(F) - 7, 2 * count):
            for s in range(1, len(F)):
                _apply(acc, {"transport": transport, "keep": keep, "T": T, "R": R, "count": count, "mbap": mbap,
                             "tx": [[[2, ["head", s]], [8, ["tail", s]]]]})
    acc.sample({"transport": transport, "keep": keep, "count": count, "frame_len": len(F), "splits": len(F) - 1})
    return acc


def negative_job(job):
    transport, keep, count, T, R = job
    acc = Acc()
    cmd, F, F2 = frames(transport, count)
    hdr = MIN_HEADER[transport]
    splits = sorted({hdr, hdr + 1, len(F) // 2, len(F) - 3, len(F) - 1} & set(range(1, len(F))))
    seconds = lambda s: [["tail_plus", s, 1], ["tail_plus", s, 3], ["tail_minus", s, 1], ["tail_minus", s, 2],
                         ["tail_flip", s, 0], ["tail_flip", s, 13], ["garbage", len(F) - s, 7], ["full"],
                         ["other_tail", s], ["other_full"]]
    for s in splits:
        for sec in seconds(s):
            for d2 in (2, 9, 20):
                _apply(acc, {"transport": transport, "keep": keep, "T": T, "R": R, "count": count,
                             "tx": [[[2, ["head", s]], [d2, sec]]]})
        # cross transmission: head answers transmission 1; transmission 2 receives ...
        for later in (["tail", s], ["other_tail", s], ["garbage", len(F) - s, 9], ["full"], ["tail_flip", s, 5]):
            for d in (1, 6):
                _apply(acc, {"transport": transport, "keep": keep, "T": T, "R": R, "count": count,
                             "tx": [[[3, ["head", s]]], [[d, later]]]})
                _apply(acc, {"transport": transport, "keep": keep, "T": T, "R": R, "count": count,
                             "tx": [[[3, ["head", s]], [30, later]], []]})
                _apply(acc, {"transport": transport, "keep": keep, "T": T, "R": R, "count": count,
                             "tx": [[[3, ["head", s]]], [[d, ["head", s]]], [[d, later]]]})
    # transmission 1 gets a first fragment and then the connection is closed by the peer (before any timeout); transmission 2
    # receives the remainder / another remainder / its own answer split at the same point: nothing may be glued onto the old fragment
    for s in splits:
        if s < hdr:
            continue
        for later in ([[1, ["tail", s]]], [[1, ["other_tail", s]]], [[1, ["other_head", s]], [3, ["other_tail", s]]], [[2, ["full"]]]):
            for d_close in (3, 9):
                _apply(acc, {"transport": transport, "keep": keep, "T": T, "R": R, "count": count,
                             "tx": [[[2, ["head", s]], [d_close, ["eof"]]], later]})
    # a stale first fragment of transmission 1 (lost tail) shows up during transmission 2, which is answered in two pieces
    if transport != "tcp":
        for s in splits:
            if s < hdr:
                continue
            for stale in (["other_head", s], ["head", s], ["other_head", max(hdr, s - 2)], ["head", min(len(F) - 1, s + 1)]):
                for (late, d1, d2) in ((17, 3, 5), (19, 4, 4), (17, 2, 15), (20, 6, 9)):
                    _apply(acc, {"transport": transport, "keep": keep, "T": T, "R": R, "count": count,
                                 "tx": [[[late, stale]], [[d1, ["head", s]], [d2, ["tail", s]]]]})
    if len(acc.samples) < 1:
        acc.sample({"transport": transport, "keep": keep, "T": T, "R": R, "count": count,
                    "tx": [[[3, ["head", splits[0]]]], [[1, ["tail", splits[0]]]]]})
    return acc


def hyp_job(job):
    seed, n = job
    from hypothesis import strategies as st
    acc = Acc()

    @st.composite
    def cases(draw):
        transport = draw(st.sampled_from(("udp", "aa55", "tcp")))
        count = draw(st.integers(0, 255)) if transport == "aa55" else draw(st.integers(1, 125))
        global CONTENT, MBAP
        content = draw(st.sampled_from(("pattern", "pattern", "markers", "ff")))
        CONTENT = content
        mbap = draw(st.one_of(st.none(), st.none(), st.integers(0, 0xFFFF), st.integers(0, 260))) if transport == "tcp" else None
        MBAP = None
        cmd, F, F2 = frames(transport, count)
        R = draw(st.integers(0, 3))
        s = draw(st.integers(1, max(1, len(F) - 1)))
        tick = st.integers(0, 40)
        spec = st.one_of(
            st.just(["head", s]), st.just(["tail", s]), st.just(["full"]), st.just(["other_tail", s]),
            st.just(["other_full"]), st.just(["other_head", s]),
            st.tuples(st.just("tail_plus"), st.just(s), st.integers(1, 3)).map(list),
            st.tuples(st.just("tail_minus"), st.just(s), st.integers(1, 3)).map(list),
            st.tuples(st.just("tail_flip"), st.just(s), st.integers(0, 2000)).map(list),
            st.tuples(st.just("garbage"), st.integers(1, len(F)), st.integers(0, 255)).map(list),
        )
        deliveries = st.lists(st.tuples(tick, spec).map(list), max_size=3).map(lambda l: sorted(l, key=lambda e: e[0]))
        first = draw(st.lists(st.tuples(tick, spec).map(list), max_size=2))
        first = sorted([[draw(st.integers(0, 15)), ["head", s]]] + first, key=lambda e: e[0])
        return {"transport": transport, "keep": draw(st.booleans()), "T": draw(st.sampled_from((0.5, 1.0, 2.0))), "R": R,
                "count": count, "tx": [first] + draw(st.lists(deliveries, max_size=R)), "latency": draw(st.integers(0, 2)),
                "content": content, "mbap": mbap, "api": draw(st.booleans())}

    def body(case):
        if len(acc.samples) < 3:
            acc.sample(case)
        return check_case(acc, case)

    harness.hyp_search(acc, body, [cases()], seed=seed, max_examples=n)
    return acc


def run(ctx):
    from vlib import concur
    concur.register(ctx, "C07")
    pos, neg = [], []
    for transport in ("udp", "aa55", "tcp"):
        for keep in (False, True):
            for count in counts_for(transport, ctx.quick):
                pos.append((transport, keep, count, 1.0, 1))
            for count in ((1, 33, 125) if transport != "aa55" else (1, 140, 255)):
                neg.append((transport, keep, count, 1.0, 2))
    pos.sort(key=lambda j: -j[2])
    ctx.shard(positive_job, pos, "every split point x 5 timings, exact remainder (positive oracle)")
    ctx.exhaustive_parts.append("all split points 1..len-1 of the response frame for each enumerated count/length, transport and keep-alive")
    ctx.shard(negative_job, neg, "wrong second pieces and cross-transmission leftovers on a grid")
    pj = [(t, k, c) for t in ("udp", "aa55", "tcp") for k in (False, True) for c in ((4, 33) if ctx.quick else (1, 4, 33, 125))]
    ctx.shard(prior_job, pj, "second request on the same protocol object after a request that was itself answered in fragments (splits x timings x gap)")
    ctx.shard(queued_job, pj, "other callers queue up on the same protocol object while the split answer is arriving")
    n = ctx.pick(4800, 100000)
    ctx.shard(hyp_job, [(ctx.seed * 1000 + i, n // 16) for i in range(16)], "hypothesis: free delivery lists over up to R+1 transmissions")


def replay(ctx, case):
    if isinstance(case, dict) and case.get("overlap") and "callers" in case:
        from vlib import concur
        concur.replay(ctx.acc, case, concur.INVARIANTS["C07"], "C07")
        return
    _apply(ctx.acc, case)
