"""C13 - derived and label sensors always agree with the raw sensors of the same read."""
from __future__ import annotations

from fractions import Fraction

from vlib import harness, refsensor as rs, refwire as rw, tables
from vlib.harness import Acc, HarnessError
from checks.c12 import mix

LEVEL = "exploration"
RULE = ("case = (family, table, block contents); the table is decoded with Inverter._map_response and every derived value is "
        "recomputed from the raw values of the same dictionary (label = const table lookup of its code; bitmap label = names of "
        "exactly the set bits of its code word(s), two-word bitmaps use high x 65536 + low; totals = sum of parts; V x I powers "
        "within 0.5 of the exact rational product; sign/direction rules). Every 16-bit code word of every code/label pair is "
        "enumerated (two-word bitmaps: each word exhaustively with the other on boundary values, plus a grid); sums/products get "
        "boundary + patterned + Hypothesis blocks. Non-trivial = code word != 0 / any alarm bit set / negative power / a 'no "
        "value' part; distinct by (relation, involved raw values).")
ASSUMPTIONS = [
    "label tables are goodwe/const.py's own dictionaries; WHICH table belongs to which label sensor is written in this check",
    "pairing follows the naming convention '<x>_label' <-> '<x>' plus the explicit bitmap pairs listed in RELATIONS",
    "V x I powers: any integer within 0.5 of the exact rational product is accepted (float ties)",
]

# family -> label sensor id -> (code sensor id, const table name)
LABELS = {
    "ET": {"pv4_mode_label": ("pv4_mode", "PV_MODES"), "pv3_mode_label": ("pv3_mode", "PV_MODES"),
           "pv2_mode_label": ("pv2_mode", "PV_MODES"), "pv1_mode_label": ("pv1_mode", "PV_MODES"),
           "grid_mode_label": ("grid_mode", "GRID_MODES"), "grid_in_out_label": ("grid_in_out", "GRID_IN_OUT_MODES"),
           "battery_mode_label": ("battery_mode", "BATTERY_MODES"), "safety_country_label": ("safety_country", "SAFETY_COUNTRIES"),
           "work_mode_label": ("work_mode", "WORK_MODES_ET")},
    "DT": {"work_mode_label": ("work_mode", "WORK_MODES"), "safety_country_label": ("safety_country", "SAFETY_COUNTRIES")},
    "ES": {"pv1_mode_label": ("pv1_mode", "PV_MODES"), "pv2_mode_label": ("pv2_mode", "PV_MODES"),
           "battery_mode_label": ("battery_mode", "BATTERY_MODES"), "grid_mode_label": ("grid_mode", "WORK_MODES_ES"),
           "load_mode_label": ("load_mode", "LOAD_MODES"), "work_mode_label": ("work_mode", "ENERGY_MODES"),
           "grid_in_out_label": ("grid_in_out", "GRID_IN_OUT_MODES")},
}
# bitmap label id -> (code ids (hi, lo) or (code,), table)
BITMAPS = {
    "ET": {"errors": (("error_codes",), "ERROR_CODES"), "diagnose_result_label": (("diagnose_result",), "DIAG_STATUS_CODES"),
           "battery_error": (("battery_error_h", "battery_error_l"), "BMS_ALARM_CODES"),
           "battery_warning": (("battery_warning_h", "battery_warning_l"), "BMS_WARNING_CODES"),
           "battery2_error": (("battery2_error_h", "battery2_error_l"), "BMS_ALARM_CODES"),
           "battery2_warning": (("battery2_warning_h", "battery2_warning_l"), "BMS_WARNING_CODES")},
    "DT": {"derating_mode_label": (("derating_mode",), "DERATING_MODE_CODES")},
    "ES": {"diagnose_result_label": (("diagnose_result",), "DIAG_STATUS_CODES")},
}
# computed numeric sensors handled by formulas()
FORMULAS = {
    "ET": {"ppv", "house_consumption", "grid_in_out"},
    "DT": {"ppv1", "ppv2", "ppv3", "ppv", "pgrid1", "pgrid2", "pgrid3"},
    "ES": {"ppv1", "ppv2", "ppv", "ibattery1", "pbattery1", "pgrid", "plant_power", "house_consumption"},
}
ES_SETTINGS_FORMULAS = {"dod"}


def const_table(name):
    import goodwe.const as c
    return getattr(c, name)


def bitmap_names(value: int, table) -> str:
    out = []
    for i in range(32):
        if (value >> i) & 1:
            n = table.get(i, "err%d" % i)
            if n:
                out.append(n)
    return ", ".join(out)


def coverage_guard():
    """Every label / computed sensor of every table must be covered by a relation (otherwise exit 2)."""
    for fam, tname, i, s in tables.all_sensors():
        tn = rs.type_name(s)
        if tn in ("Enum", "EnumH", "EnumL", "Enum2", "EnumCalculated"):
            if s.id_ not in LABELS[fam]:
                raise HarnessError("label sensor %s.%s has no relation in checks/c13.py" % (fam, s.id_))
        elif tn in ("EnumBitmap4", "EnumBitmap22"):
            if s.id_ not in BITMAPS[fam]:
                raise HarnessError("bitmap sensor %s.%s has no relation in checks/c13.py" % (fam, s.id_))
        elif tn == "Calculated":
            if s.id_ not in FORMULAS[fam] and not (fam == "ES" and s.id_ in ES_SETTINGS_FORMULAS):
                raise HarnessError("calculated sensor %s.%s has no relation in checks/c13.py" % (fam, s.id_))


def map_block(fam, tname, payload: bytes, sensors=None):
    """Decode `payload` (block of the table) with the library; returns dict."""
    from goodwe.inverter import Inverter
    from goodwe.protocol import Aa55ProtocolCommand, ModbusRtuReadCommand, ProtocolResponse
    tab = sensors if sensors is not None else tables.tables(tables.family_classes()[fam])[tname]
    if fam == "ES":
        st = tables.is_settings_table(tname)
        cmd = Aa55ProtocolCommand("010900" if st else "010600", "0189" if st else "0186")
        frame = rw.aa55_response(b"\x01\x89" if st else b"\x01\x86", payload)
    else:
        first = BLOCK_FIRST[(fam, tname)]
        cmd = ModbusRtuReadCommand(0xF7, first, len(payload) // 2)
        frame = rw.rtu_read_response_unsealed(0xF7, payload)
    return Inverter._map_response(ProtocolResponse(frame, cmd), tab)


BLOCK_FIRST = {("ET", "all_sensors"): 35100, ("ET", "all_sensors_battery"): 37000, ("ET", "all_sensors_battery2"): 39000,
               ("ET", "all_sensors_meter"): 36000, ("ET", "all_sensors_mppt"): 35301, ("DT", "all_sensors"): 30100,
               ("DT", "all_sensors_meter"): 30195}
BLOCK_LEN = {("ET", "all_sensors"): 250, ("ET", "all_sensors_battery"): 48, ("ET", "all_sensors_battery2"): 44,
             ("ET", "all_sensors_meter"): 250, ("ET", "all_sensors_mppt"): 130, ("DT", "all_sensors"): 146,
             ("DT", "all_sensors_meter"): 30, ("ES", "sensors"): 142, ("ES", "all_settings"): 86}


def pos_of(fam, tname, sensor):
    if fam == "ES":
        return sensor.offset
    return (sensor.offset - BLOCK_FIRST[(fam, tname)]) * 2


def nz(v):
    return 0 if v is None else v


def check_relations(acc: Acc, fam, tname, payload: bytes, d: dict, only=None, how=""):
    """Apply every relation whose sensors are in d. Returns list of failures."""
    fails = []
    case = {"family": fam, "table": tname, "payload": payload, "only": sorted(only) if only else None}

    def bad(key, msg):
        fails.append(("C13|%s|%s" % (fam, key), msg, case))

    for lid, (cid, tab) in LABELS[fam].items():
        if lid in d and cid in d and (only is None or lid in only):
            want = const_table(tab).get(d[cid])
            if d[lid] != want:
                bad("label|%s" % lid, "%s=%r but %s=%r, table %s gives %r" % (lid, d[lid], cid, d[cid], tab, want))
    for lid, (cids, tab) in BITMAPS[fam].items():
        if lid in d and all(c in d for c in cids) and (only is None or lid in only):
            if len(cids) == 1:
                value = nz(d[cids[0]])
            else:
                value = nz(d[cids[0]]) * 65536 + nz(d[cids[1]])
            want = bitmap_names(value, const_table(tab))
            if d[lid] != want and len(cids) == 2:
                # known defect signature: 'high << 16 + low' evaluated as high << (16 + low)
                hi_, lo_ = nz(d[cids[0]]), nz(d[cids[1]])
                buggy = (hi_ << (16 + lo_)) & 0xFFFFFFFF if lo_ < 16 else 0
                if d[lid] == bitmap_names(buggy, const_table(tab)):
                    bad("bitmap22-shift-precedence|%s" % lid, "%s=%r but code words %s=%s (0x%x) have set bits meaning %r "
                        "(value equals the decoding of high << (16 + low))" % (lid, d[lid], cids, [hi_, lo_], value, want))
                    continue
            if d[lid] != want:
                bad("bitmap|%s" % lid, "%s=%r but code word(s) %s=%s (0x%x) have set bits meaning %r" % (
                    lid, d[lid], cids, [d[c] for c in cids], value, want))
    if only is not None and not (only & (FORMULAS[fam] | ES_SETTINGS_FORMULAS)):
        return fails
    # ---- formulas ------------------------------------------------------------------------------------------
    derived_none = [n for n in sorted(FORMULAS[fam]) if n in d and d[n] is None]
    for n in derived_none:
        # a derived value is a function of raw values of the same response: it cannot be 'undecodable' on its own
        bad("derived-none|%s" % n, "%s is reported as None although it is computed from the raw values of the same response" % n)
    if derived_none:
        d = {k: v for k, v in d.items() if k not in derived_none}

    def has(*ids):
        return all(i in d for i in ids)

    def near_product(name, v, i, sign=1, absolute=False):
        exact = Fraction(str(d[v])) * Fraction(str(abs(d[i]) if absolute else d[i]))
        got = d[name]
        if absolute:
            if abs(Fraction(abs(got)) - abs(exact)) > Fraction(1, 2):
                bad("product|%s" % name, "%s=%r but %s x %s = %s x %s = %s" % (name, got, v, i, d[v], d[i], float(exact)))
        elif abs(Fraction(got) - exact) > Fraction(1, 2):
            bad("product|%s" % name, "%s=%r but %s x %s = %s x %s = %s" % (name, got, v, i, d[v], d[i], float(exact)))

    if fam == "ET" and tname == "all_sensors":
        if has("ppv", "ppv1", "ppv2", "ppv3", "ppv4"):
            want = sum(max(0, nz(d[k])) for k in ("ppv1", "ppv2", "ppv3", "ppv4"))
            if d["ppv"] != want:
                bad("sum|ppv", "ppv=%r but ppv1..4=%r" % (d["ppv"], [d[k] for k in ("ppv1", "ppv2", "ppv3", "ppv4")]))
        if has("house_consumption", "ppv1", "ppv2", "ppv3", "ppv4", "pbattery1", "active_power"):
            want = sum(nz(d[k]) for k in ("ppv1", "ppv2", "ppv3", "ppv4")) + d["pbattery1"] - d["active_power"]
            if d["house_consumption"] != want:
                bad("formula|house_consumption", "house_consumption=%r, ppv1..4 + pbattery1 - active_power = %r" % (d["house_consumption"], want))
        if has("grid_in_out", "active_power"):
            ap = d["active_power"]
            want = 1 if ap >= 90 else (2 if ap < -90 else 0)
            if d["grid_in_out"] != want:
                bad("formula|grid_in_out", "grid_in_out=%r for active_power=%r (documented: >=90 export(1), <-90 import(2), else 0)" % (d["grid_in_out"], ap))
    if fam == "DT" and tname == "all_sensors":
        for n in ("1", "2", "3"):
            if has("ppv" + n, "vpv" + n, "ipv" + n):
                near_product("ppv" + n, "vpv" + n, "ipv" + n)
            if has("pgrid" + n, "vgrid" + n, "igrid" + n):
                near_product("pgrid" + n, "vgrid" + n, "igrid" + n)
        if has("ppv", "ppv1", "ppv2", "ppv3") and d["ppv"] != d["ppv1"] + d["ppv2"] + d["ppv3"]:
            bad("sum|ppv", "ppv=%r but ppv1+ppv2+ppv3=%r" % (d["ppv"], d["ppv1"] + d["ppv2"] + d["ppv3"]))
    if fam == "ES" and tname == "sensors":
        for n in ("1", "2"):
            if has("ppv" + n, "vpv" + n, "ipv" + n):
                near_product("ppv" + n, "vpv" + n, "ipv" + n)
        if has("ppv", "ppv1", "ppv2") and d["ppv"] != d["ppv1"] + d["ppv2"]:
            bad("sum|ppv", "ppv=%r but ppv1+ppv2=%r" % (d["ppv"], d["ppv1"] + d["ppv2"]))
        raw_i = rs._voltage(payload[18:20], None)  # raw battery current register (unsigned 0.1 A)
        if has("ibattery1", "battery_mode"):
            want = abs(raw_i) * (-1 if d["battery_mode"] == 3 else 1)
            if not rs.same(d["ibattery1"], want):
                bad("formula|ibattery1", "ibattery1=%r, raw current %r, battery_mode=%r" % (d["ibattery1"], raw_i, d["battery_mode"]))
        if has("pbattery1", "vbattery1", "battery_mode"):
            exact = Fraction(str(d["vbattery1"])) * Fraction(str(raw_i))
            if abs(Fraction(abs(d["pbattery1"])) - exact) > Fraction(1, 2):
                bad("product|pbattery1", "pbattery1=%r but vbattery1 x current = %s" % (d["pbattery1"], float(exact)))
            if d["pbattery1"] != 0 and (d["pbattery1"] < 0) != (d["battery_mode"] == 3):
                bad("sign|pbattery1", "pbattery1=%r with battery_mode=%r (negative iff charging=3)" % (d["pbattery1"], d["battery_mode"]))
        if has("pgrid", "grid_in_out"):
            raw = rs._s(payload[38:40])
            want = abs(raw) * (-1 if d["grid_in_out"] == 2 else 1)
            if d["pgrid"] != want:
                bad("formula|pgrid", "pgrid=%r, raw %r, grid_in_out=%r" % (d["pgrid"], raw, d["grid_in_out"]))
        if has("plant_power", "pload", "pback_up") and d["plant_power"] != nz(d["pload"]) + nz(d["pback_up"]):
            bad("sum|plant_power", "plant_power=%r, pload=%r, pback_up=%r" % (d["plant_power"], d["pload"], d["pback_up"]))
        if has("house_consumption", "ppv1", "ppv2", "pbattery1", "pgrid"):
            want = d["ppv1"] + d["ppv2"] + d["pbattery1"] - d["pgrid"]
            if d["house_consumption"] != want:
                bad("formula|house_consumption", "house_consumption=%r, ppv1+ppv2+pbattery1-pgrid=%r" % (d["house_consumption"], want))
    if fam == "ES" and tname == "all_settings":
        if "dod" in d:
            raw = rs._u(payload[32:34])
            want = 100 - (0 if raw == 0xFFFF else raw)
            if d["dod"] != want:
                bad("formula|dod", "dod=%r, raw register %r" % (d["dod"], raw))
    return fails


def base_payload(fam, tname, salt, style):
    n = BLOCK_LEN[(fam, tname)]
    if style == 0:
        return bytearray(n)
    if style == 1:
        return bytearray(b"\xff" * n)
    if style == 2:
        return bytearray((mix(salt, i) >> 7) & 0xFF for i in range(n))
    # style 3: plausible small positive values
    return bytearray(((mix(salt, i) >> 7) & 0x0F) if i % 2 == 0 else (mix(salt, i) >> 9) & 0xFF for i in range(n))


def by_id(fam, tname):
    return {s.id_: s for s in tables.tables(tables.family_classes()[fam])[tname]}


def pair_job(job):
    """Exhaustive sweep of one code word for one label / bitmap relation."""
    fam, tname, lid, which, lo, hi, others = job
    acc = Acc()
    ids = by_id(fam, tname)
    if lid in LABELS[fam]:
        cids = (LABELS[fam][lid][0],)
    else:
        cids = BITMAPS[fam][lid][0]
    involved = [ids[c] for c in cids if c in ids and rs.type_name(ids[c]) not in rs.COMPUTED] + [ids[lid]]
    calc_pair = lid == "grid_in_out_label" and fam == "ET"
    if calc_pair:
        involved = [ids["active_power"], ids["grid_in_out"], ids["grid_in_out_label"]]
    sweep_sensor = ids[cids[which]] if not calc_pair else ids["active_power"]
    pos = pos_of(fam, tname, sweep_sensor)
    w = max(2, rs.width(sweep_sensor) or 2)
    for o, other in enumerate(others):
        payload = base_payload(fam, tname, 17 + o, 0 if o == 0 else 2)
        # place the "other" word(s) of the pair
        for k, c in enumerate(cids):
            if k != which and c in ids and rs.type_name(ids[c]) not in rs.COMPUTED:
                p = pos_of(fam, tname, ids[c])
                payload[p:p + 2] = other.to_bytes(2, "big")
        for v in range(lo, hi):
            if w == 2:
                payload[pos:pos + 2] = v.to_bytes(2, "big")
            else:  # 4-byte code: sweep the low and the high half in turn
                payload[pos:pos + 4] = (other.to_bytes(2, "big") + v.to_bytes(2, "big")) if o % 2 == 0 else (v.to_bytes(2, "big") + other.to_bytes(2, "big"))
            acc.case()
            if v:
                acc.nontrivial_counted()
            d = map_block(fam, tname, bytes(payload), involved)
            for key, msg, c in check_relations(acc, fam, tname, bytes(payload), d, only={lid}):
                acc.fail(key, msg, c)
    return acc


def block_job(job):
    fam, tname, lo, hi, seed = job
    acc = Acc()
    for k in range(lo, hi):
        payload = base_payload(fam, tname, seed * 1009 + k, k % 4)
        if k % 5 == 0:  # sprinkle sentinels / sign bits on 16-bit boundaries
            for j in range(0, len(payload) - 1, 2):
                r = mix(seed, k, j) % 11
                if r == 0:
                    payload[j:j + 2] = b"\xff\xff"
                elif r == 1:
                    payload[j:j + 2] = b"\x80\x00"
                elif r == 2:
                    payload[j:j + 2] = b"\x7f\xff"
        acc.case()
        d = map_block(fam, tname, bytes(payload))
        if any(isinstance(v, (int, float)) and v < 0 for v in d.values()) or any(v is None for v in d.values()):
            acc.nontrivial(fam, tname, bytes(payload))
        for key, msg, c in check_relations(acc, fam, tname, bytes(payload), d):
            acc.fail(key, msg, c)
        if len(acc.samples) < 1:
            acc.sample({"family": fam, "table": tname, "payload": bytes(payload), "derived": {k2: d[k2] for k2 in list(FORMULAS[fam] & set(d))[:6]}})
    return acc


PALETTE = (0, 1, 2, 3, 4, 5, 90, 89, 100, 1500, 0xFFA6, 0xFFA5, 0xFF00, 0x7FFF, 0x8000, 0xFFFF, 0x0101)


MODELS = {"ES": [b"GW5048-ESA", b"GW3648-EM", b"GW5000S-BP", b"GW3600S-BP", b"GW5048D-ES", b"GW3648D-ES", b"GW5048-EM", b"GW2500-BP"],
          "ET": [b"GW10K-ET", b"GW25K-ET", b"GW29K9-ET", b"GW6000-EH", b"GW5K-BT", b"GW3600-BH", b"GW8K-ET", b"GW5KL-ET"],
          "DT": [b"GW10KT-DT", b"GW5000D-NS", b"GW3000-XS", b"GW17KN-DT", b"GW6000-DT", b"GW10K-MS", b"GW25K-MT", b"GW50KS-MT"]}


def api_job(job):
    """The same relations on the dictionary returned by the PUBLIC read_runtime_data() (all blocks merged, model filters and
    any post-processing applied) of simulated ET / DT / ES inverters whose registers hold small codes and boundary words."""
    from vlib import siminv
    from vlib.harness import run_sync
    fam, lo, hi, seed = job
    acc = Acc()
    serials = {"ET": [b"9010KETU000W0000", b"9010KETT000W0000", b"929K9ETT00W00001"], "DT": [b"9010KDTU000W0000", b"9010KMSU000W0000"],
               "ES": [b"95048ESU000W0000"]}[fam]
    es_serials = siminv.es_serials()
    for k in range(lo, hi):
        def image(a, k=k):
            m = mix(seed, k, a)
            return PALETTE[m % len(PALETTE)] if (m >> 8) % 4 else (m >> 12) & 0xFFFF
        cfg = {"family": fam, "serial": serials[k % len(serials)], "rated_power": (10000, 15000, 29900, 30001, 50000, 65535, 0, 3000)[k % 8], "battery_mode": 1, "refuse": [],
               "tcp": bool(k & 1)}
        if fam == "ES":
            cfg["serial"] = es_serials[(k // 3) % len(es_serials)]
            cfg["firmware"] = (b"02041", b"2214E", b"1107E", b"10107", b"0202 ")[(k // 5) % 5]
        inv, sim = siminv.build_direct(cfg, default=image)
        # identification fields nobody pinned: model names of the real product lines (a model-specific branch must still
        # report derived values that agree with the raw values of the same read)
        model = MODELS[fam][(k // 2) % len(MODELS[fam])]
        if fam == "ES":
            sim.device_info = siminv.es_device_info(firmware=cfg["firmware"], model=model, serial=cfg["serial"])
            sim.runtime[:] = bytes(((image(i) if i % 3 else image(i) >> 8) & 0xFF) for i in range(len(sim.runtime)))
        elif fam == "ET":
            sim.set_bytes(0x88b8, siminv.et_device_info(serial=cfg["serial"], model=model, rated_power=cfg["rated_power"], arm=(10, 18, 19, 24)[(k // 7) % 4]))
        else:
            sim.set_bytes(0x7531, siminv.dt_device_info(serial=cfg["serial"], model=model))
        acc.case()
        case = {"api": True, "family": fam, "k": k, "seed": seed}
        try:
            run_sync(inv.read_device_info())
            if fam == "ET":
                sim.set(35184, 1 + k % 3)
            d = run_sync(inv.read_runtime_data())
        except Exception as ex:
            acc.cls("api|%s" % type(ex).__name__)
            continue
        acc.nontrivial("api", fam, k, seed)
        tname = {"ET": "all_sensors", "DT": "all_sensors", "ES": "sensors"}[fam]
        payload = bytes(sim.runtime) if fam == "ES" else b""
        for key, msg, c in check_relations(acc, fam, tname, payload, d):
            acc.fail(key.replace("C13|%s|" % fam, "C13|%s|api|" % fam) if False else key, "[read_runtime_data] " + msg, case)
        if fam in ("ET", "DT"):
            # capability histories: optional blocks are refused (ILLEGAL DATA ADDRESS) for two polls, then served again - every result
            # of the history, whatever the object has learned meanwhile, must still satisfy the relations among its own values
            from goodwe.exceptions import InverterError
            ranges = siminv.ET_REFUSE_RANGES if fam == "ET" else siminv.DT_REFUSE_RANGES
            names = sorted(ranges)
            picked = [n for j, n in enumerate(names) if (k >> j) & 1] or names[k % len(names):][:1]
            saved = list(sim.refused)
            for phase in ("refused", "refused", "served", "served"):
                sim.refused = saved + ([ranges[n] for n in picked] if phase == "refused" else [])
                try:
                    dh = run_sync(inv.read_runtime_data())
                except InverterError:
                    continue
                acc.case()
                acc.nontrivial("api-history", fam, k, seed, phase, tuple(picked))
                for key, msg, c in check_relations(acc, fam, tname, payload, dh):
                    acc.fail(key, "[read_runtime_data, blocks %s %s] %s" % (picked, phase, msg), dict(case, history=[picked, phase]))
            sim.refused = saved
            # the same label/code pairs fetched one by one (read_sensor) from the unchanged registers
            want_ids = [i for lid, (cid, _t) in LABELS[fam].items() for i in (lid, cid) if lid in d and cid in d]
            d1 = {}
            for sid in want_ids:
                try:
                    d1[sid] = run_sync(inv.read_sensor(sid))
                except Exception as ex:     # computed kinds are not readable one by one (C16's finding), refusals etc.
                    acc.cls("api|read_sensor|%s" % type(ex).__name__)
            if d1:
                acc.case()
                acc.nontrivial("api-single", fam, k, seed)
                for key, msg, c in check_relations(acc, fam, tname, payload, d1, only={i for i in d1 if i in LABELS[fam]}):
                    acc.fail(key, "[read_sensor, one id at a time] " + msg, dict(case, single=True))
    return acc


def hyp_job(job):
    seed, n = job
    from hypothesis import strategies as st
    acc = Acc()
    keys = sorted(BLOCK_LEN)

    @st.composite
    def cases(draw):
        fam, tname = draw(st.sampled_from(keys))
        nbytes = BLOCK_LEN[(fam, tname)]
        word = st.one_of(st.sampled_from((0, 1, 3, 90, 89, 0xFFA6, 0xFFA5, 0x7FFF, 0x8000, 0xFFFF, 0xFFFE, 100, 1000)), st.integers(0, 0xFFFF))
        words = draw(st.lists(word, min_size=nbytes // 2, max_size=nbytes // 2))
        return fam, tname, b"".join(w.to_bytes(2, "big") for w in words)

    def body(t):
        fam, tname, payload = t
        acc.case()
        d = map_block(fam, tname, payload)
        acc.nontrivial(fam, tname, payload)
        return check_relations(acc, fam, tname, payload, d)

    harness.hyp_search(acc, body, [cases()], seed=seed, max_examples=n)
    return acc


def run(ctx):
    coverage_guard()
    jobs = []
    bound = (0, 1, 0x8000, 0xFFFF, 0x00FF, 0x5A5A)
    for fam in LABELS:
        for tname in [t for (f, t) in BLOCK_LEN if f == fam]:
            ids = by_id(fam, tname)
            for lid in list(LABELS[fam]) + list(BITMAPS[fam]):
                if lid not in ids:
                    continue
                ncodes = 1 if lid in LABELS[fam] else len(BITMAPS[fam][lid][0])
                single4 = lid in BITMAPS[fam] and ncodes == 1
                for which in range(ncodes):
                    others = bound if (ncodes == 2 or single4) else (0,)
                    if ctx.quick and len(others) > 1:
                        others = (0, 0x8001)
                    for lo in range(0, 65536, 32768):
                        jobs.append((fam, tname, lid, which, lo, lo + 32768, others))
    ctx.shard(pair_job, jobs, "exhaustive 16-bit sweep of every code word of every label/bitmap relation")
    ctx.exhaustive_parts.append("every 16-bit value of each code word of each <x>_label / bitmap pair (two-word and 4-byte bitmaps: each half "
                                "exhaustively with the other half on boundary values)")
    nblocks = ctx.pick(1500, 20000)
    bj = []
    for (fam, tname) in BLOCK_LEN:
        step = (nblocks + 3) // 4
        for lo in range(0, nblocks, step):
            bj.append((fam, tname, lo, min(nblocks, lo + step), ctx.seed))
    ctx.shard(block_job, bj, "patterned blocks with sentinels / sign bits, all relations of the table")
    na = ctx.pick(1600, 30000)
    aj = []
    for fam in ("ET", "DT", "ES"):
        step = (na + 4) // 5
        for lo in range(0, na, step):
            aj.append((fam, lo, min(na, lo + step), ctx.seed))
    ctx.shard(api_job, aj, "relations on the merged dictionary of the public read_runtime_data() (simulated inverters, small-code / boundary register images)")
    n = ctx.pick(4000, 80000)
    ctx.shard(hyp_job, [(ctx.seed * 1000 + i, n // 16) for i in range(16)], "hypothesis blocks (word-level, boundary-biased)")


def replay(ctx, case):
    if case.get("api"):
        ctx.acc.merge(api_job((case["family"], case["k"], case["k"] + 1, case["seed"])))
        return
    payload = case["payload"]
    only = set(case["only"]) if case.get("only") else None
    d = map_block(case["family"], case["table"], payload)
    ctx.acc.case()
    for key, msg, c in check_relations(ctx.acc, case["family"], case["table"], payload, d, only=only):
        ctx.acc.fail(key, msg, c)
